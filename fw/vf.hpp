// vf.hpp — monitor runtime for the glm runtime-verification framework.
//
// A *monitor* is one C++ program that evaluates public glm operations on
// generated inputs and judges every evaluation with an oracle.  Each checked
// operation is registered as an Op {name, input size, field format, check fn};
// generators call vf::run(ctx, OP, input) which records a breadcrumb (for
// sanitizer / crash attribution), counts the evaluation, tracks distinct
// inputs, and calls the check.  `--replay-op NAME --replay-hex HEX` decodes a
// recorded input and calls the very same check once.
//
// All state is per-thread (one Ctx per worker) and merged at exit, so the
// monitor itself has no shared mutable state.
#pragma once
#include <cstdint>
#include <cstdio>
#include <cstdlib>
#include <cstring>
#include <cmath>
#include <string>
#include <vector>
#include <map>
#include <functional>
#include <thread>
#include <atomic>
#include <mutex>
#include <algorithm>
#include <type_traits>
#include <csignal>
#include <unistd.h>
#include <fcntl.h>

namespace vf {

typedef uint8_t u8; typedef uint16_t u16; typedef uint32_t u32; typedef uint64_t u64;
typedef int8_t i8; typedef int16_t i16; typedef int32_t i32; typedef int64_t i64;

// ---------------------------------------------------------------- PRNG
static inline u64 splitmix64(u64& x){ u64 z=(x+=0x9e3779b97f4a7c15ULL); z=(z^(z>>30))*0xbf58476d1ce4e5b9ULL; z=(z^(z>>27))*0x94d049bb133111ebULL; return z^(z>>31);}
static inline u64 hash_str(const char* s){ u64 h=1469598103934665603ULL; while(*s){ h^=(u8)*s++; h*=1099511628211ULL;} return h; }
static inline u64 hash_bytes(const void* p, size_t n){
	const u8* b=(const u8*)p; u64 h=0x243f6a8885a308d3ULL^n;
	while(n>=8){ u64 v; memcpy(&v,b,8); h=(h^v)*0x9fb21c651e98df25ULL; h^=h>>29; b+=8;n-=8; }
	u64 v=0; if(n){ memcpy(&v,b,n); h=(h^v)*0x9fb21c651e98df25ULL; h^=h>>29; }
	h*=0xff51afd7ed558ccdULL; h^=h>>33; h*=0xc4ceb9fe1a85ec53ULL; h^=h>>33; return h;
}
struct Rng {
	u64 s[4];
	explicit Rng(u64 seed=1){ reseed(seed);}
	void reseed(u64 seed){ for(int i=0;i<4;i++) s[i]=splitmix64(seed); }
	static inline u64 rotl(u64 x,int k){ return (x<<k)|(x>>(64-k)); }
	u64 next(){ u64 r=rotl(s[1]*5,7)*9, t=s[1]<<17; s[2]^=s[0]; s[3]^=s[1]; s[1]^=s[2]; s[0]^=s[3]; s[2]^=t; s[3]=rotl(s[3],45); return r; }
	u32 u32_(){ return (u32)(next()>>32);}
	u64 below(u64 n){ return n? next()%n : 0; }
	int range(int lo,int hi){ return lo+(int)below((u64)(hi-lo+1)); }
	double unit(){ return (double)(next()>>11)*(1.0/9007199254740992.0);} // [0,1)
	double uniform(double a,double b){ return a+(b-a)*unit(); }
	bool coin(){ return next()>>63; }
	// random float bit patterns (every class reachable)
	float fbits(){ u32 b=u32_(); float f; memcpy(&f,&b,4); return f; }
	double dbits(){ u64 b=next(); double f; memcpy(&f,&b,8); return f; }
	// finite float, log-uniform magnitude over [2^elo,2^ehi), random sign
	double logmag(int elo,int ehi){ double e=uniform(elo,ehi); double m=std::exp2(e); return coin()? m:-m; }
	double gauss(){ double u1=unit(),u2=unit(); if(u1<1e-300) u1=1e-300; return std::sqrt(-2*std::log(u1))*std::cos(6.283185307179586*u2);}
};

// ---------------------------------------------------------------- formatting
static inline std::string hex_of(const void* p,size_t n){ static const char* d="0123456789abcdef"; std::string s; s.reserve(2*n); const u8* b=(const u8*)p; for(size_t i=0;i<n;i++){ s+=d[b[i]>>4]; s+=d[b[i]&15]; } return s; }
static inline bool unhex(const std::string& h, std::vector<u8>& out){ if(h.size()%2) return false; out.clear(); for(size_t i=0;i<h.size();i+=2){ auto v=[&](char c)->int{ if(c>='0'&&c<='9')return c-'0'; if(c>='a'&&c<='f')return c-'a'+10; if(c>='A'&&c<='F')return c-'A'+10; return -1;}; int a=v(h[i]),b=v(h[i+1]); if(a<0||b<0) return false; out.push_back((u8)(a*16+b)); } return true; }
static inline std::string jesc(const std::string& s){ std::string o; for(char ch: s){ unsigned char c=(unsigned char)ch; if(c=='"'||c=='\\'){ o+='\\'; o+=ch;} else if(c<0x20){ char b[8]; snprintf(b,8,"\\u%04x",c); o+=b;} else o+=ch;} return o; }

static inline std::string show(float f){ u32 b; memcpy(&b,&f,4); char buf[64]; snprintf(buf,64,"%.9g[0x%08x]",(double)f,b); return buf; }
static inline std::string show(double f){ u64 b; memcpy(&b,&f,8); char buf[80]; snprintf(buf,80,"%.17g[0x%016llx]",f,(unsigned long long)b); return buf; }
static inline std::string show(long double f){ char buf[80]; snprintf(buf,80,"%.21Lg",f); return buf; }
static inline std::string show(bool v){ return v?"true":"false"; }
static inline std::string show(char v){ return std::to_string((int)v); }
static inline std::string show(signed char v){ return std::to_string((int)v); }
static inline std::string show(unsigned char v){ return std::to_string((unsigned)v); }
static inline std::string show(short v){ return std::to_string(v); }
static inline std::string show(unsigned short v){ return std::to_string(v); }
static inline std::string show(int v){ return std::to_string(v); }
static inline std::string show(unsigned v){ char b[40]; snprintf(b,40,"%u[0x%x]",v,v); return b; }
static inline std::string show(long v){ return std::to_string(v); }
static inline std::string show(unsigned long v){ char b[60]; snprintf(b,60,"%lu[0x%lx]",v,v); return b; }
static inline std::string show(long long v){ return std::to_string(v); }
static inline std::string show(unsigned long long v){ char b[60]; snprintf(b,60,"%llu[0x%llx]",v,v); return b; }
static inline std::string show(const char* s){ return s; }
static inline std::string show(const std::string& s){ return s; }

// decode an input struct according to a field format string:
//  f float, d double, i int32, u uint32, l int64, q uint64, s int16, h uint16, c int8, b uint8, ? bool
// fields are laid out with natural alignment (as a plain struct would be).
static inline std::string decode_fields(const char* fmt,const void* p,size_t n){
	std::string o; size_t off=0; const u8* b=(const u8*)p; bool first=true;
	for(const char* f=fmt; f&&*f; ++f){
		size_t sz=0; switch(*f){ case 'f':case 'i':case 'u': sz=4;break; case 'd':case 'l':case 'q': sz=8;break; case 's':case 'h': sz=2;break; case 'c':case 'b':case '?': sz=1;break; case ' ':case ',': continue; default: return o+" <bad fmt>"; }
		off=(off+sz-1)/sz*sz; if(off+sz>n) break; if(!first) o+=", "; first=false;
		switch(*f){
			case 'f':{ float v; memcpy(&v,b+off,4); o+=show(v);}break;
			case 'd':{ double v; memcpy(&v,b+off,8); o+=show(v);}break;
			case 'i':{ i32 v; memcpy(&v,b+off,4); o+=show(v);}break;
			case 'u':{ u32 v; memcpy(&v,b+off,4); o+=show(v);}break;
			case 'l':{ i64 v; memcpy(&v,b+off,8); o+=show((long long)v);}break;
			case 'q':{ u64 v; memcpy(&v,b+off,8); o+=show((unsigned long long)v);}break;
			case 's':{ i16 v; memcpy(&v,b+off,2); o+=show(v);}break;
			case 'h':{ u16 v; memcpy(&v,b+off,2); char t[24]; snprintf(t,24,"%u[0x%04x]",v,v); o+=t;}break;
			case 'c':{ i8 v; memcpy(&v,b+off,1); o+=show(v);}break;
			case 'b':{ u8 v; memcpy(&v,b+off,1); char t[24]; snprintf(t,24,"%u[0x%02x]",v,v); o+=t;}break;
			case '?':{ u8 v; memcpy(&v,b+off,1); o+= v?"true":"false";}break;
		}
		off+=sz;
	}
	return o;
}

// ---------------------------------------------------------------- HyperLogLog (distinct-input estimate, mergeable)
struct HLL {
	enum { P=12, M=1<<P };
	std::vector<u8> reg;
	void add(u64 h){ if(reg.empty()) reg.assign(M,0); u32 idx=(u32)(h>>(64-P)); u64 w=(h<<P)|(1ULL<<(P-1)); u8 rho=(u8)(__builtin_clzll(w)+1); if(rho>reg[idx]) reg[idx]=rho; }
	void merge(const HLL& o){ if(o.reg.empty()) return; if(reg.empty()){ reg=o.reg; return;} for(int i=0;i<M;i++) if(o.reg[i]>reg[i]) reg[i]=o.reg[i]; }
	double estimate() const { if(reg.empty()) return 0; double sum=0; int zeros=0; for(int i=0;i<M;i++){ sum+=std::ldexp(1.0,-(int)reg[i]); if(!reg[i]) zeros++; } double alpha=0.7213/(1+1.079/M); double e=alpha*M*(double)M/sum; if(e<=2.5*M && zeros) e=M*std::log((double)M/zeros); return e; }
};

// ---------------------------------------------------------------- ops, ctx
struct Ctx;
typedef void (*CheckFn)(const void* in, Ctx& c);
struct Op { const char* name; size_t in_size; const char* fmt; CheckFn fn; int id; };
static inline std::vector<Op*>& registry(){ static std::vector<Op*> r; return r; }
static inline int register_op(Op* o){ o->id=(int)registry().size(); registry().push_back(o); return o->id; }

struct Witness { std::string in_hex, in_txt, got, want; };
struct Viol { u64 count=0; std::vector<Witness> wit; };
struct OpStat {
	u64 evals=0, enum_evals=0, enum_nontrivial=0, nontrivial=0;
	HLL hll;
	std::map<std::string,u64> classes;
	std::map<std::string,double> ratios;
	std::map<std::string,Viol> viol;
	std::vector<std::string> samples; // decoded inputs
	std::vector<std::string> sample_hex;
};

struct Crumb { const Op* op; const void* in; };
static thread_local Crumb g_crumb={nullptr,nullptr};

struct Config {
	std::string out, tier="quick", only, replay_op, replay_hex, sanlog;
	u64 seed=1; double scale=1.0; int threads=16; bool san_only=false; bool list=false; u64 sweep_div=1;
	std::map<std::string,std::string> extra;
};
static inline Config& cfg(){ static Config c; return c; }

struct Ctx {
	std::vector<OpStat> st;
	Rng rng;
	bool enum_mode=false;   // inputs come from a complete enumeration: count exactly, no hashing
	int tid=0;
	Ctx(): st(registry().size()) {}
	OpStat& cur(){ return st[g_crumb.op->id]; }
	// record a violation for the operation under evaluation
	void fail(const std::string& cls,const std::string& got,const std::string& want){
		if(cfg().san_only) return;
		OpStat& s=cur(); Viol& v=s.viol[cls]; v.count++;
		if(v.wit.size()<3){ Witness w; w.in_hex=hex_of(g_crumb.in,g_crumb.op->in_size); w.in_txt=decode_fields(g_crumb.op->fmt,g_crumb.in,g_crumb.op->in_size); w.got=got; w.want=want; v.wit.push_back(w);}
	}
	// values are only formatted for the first three witnesses of a class (a flooding defect stays cheap)
	template<class A,class B> void fail(const std::string& cls,const A& got,const B& want){
		if(cfg().san_only) return; OpStat& s=cur(); auto it=s.viol.find(cls); if(it!=s.viol.end() && it->second.wit.size()>=3){ it->second.count++; return; }
		fail(cls,std::string(show(got)),std::string(show(want))); }
	void cls(const char* name){ cur().classes[name]++; }
	void ratio(const char* name,double r){ if(!(r==r)) return; if(r>1e300) r=1e300; double& m=cur().ratios[name]; if(r>m) m=r; }
};

static inline bool all_zero(const void* p,size_t n){ const u8* b=(const u8*)p; for(size_t i=0;i<n;i++) if(b[i]) return false; return true; }

template<class In> static inline void run(Ctx& c,Op& op,const In& in){
	static_assert(std::is_trivially_copyable<In>::value,"input must be trivially copyable");
	g_crumb.op=&op; g_crumb.in=&in;
	OpStat& s=c.st[op.id]; s.evals++;
	bool nz=!all_zero(&in,sizeof(In));
	if(c.enum_mode){ s.enum_evals++; if(nz) s.enum_nontrivial++; }
	else if(nz){ s.nontrivial++; s.hll.add(hash_bytes(&in,sizeof(In))); }
	if(s.samples.size()<2 || ((s.evals&(s.evals-1))==0 && s.samples.size()<6)){ s.samples.push_back(decode_fields(op.fmt,&in,sizeof(In))); s.sample_hex.push_back(hex_of(&in,sizeof(In))); }
	op.fn(&in,c);
	g_crumb.op=nullptr;
}

#define VF_OP(NAME,INTYPE,FMT) \
	static void vfchk_##NAME(const INTYPE& in, ::vf::Ctx& c); \
	static void vfthunk_##NAME(const void* p, ::vf::Ctx& c){ INTYPE tmp; memcpy(&tmp,p,sizeof(INTYPE)); ::vf::g_crumb.in=&tmp; vfchk_##NAME(tmp,c); } \
	static ::vf::Op NAME={#NAME,sizeof(INTYPE),FMT,vfthunk_##NAME,0}; \
	static int vfreg_##NAME=::vf::register_op(&NAME); \
	static void vfchk_##NAME(const INTYPE& in, ::vf::Ctx& c)

// ---------------------------------------------------------------- global merge
static inline std::mutex& gmx(){ static std::mutex m; return m; }
static inline std::vector<OpStat>& gstat(){ static std::vector<OpStat> g; return g; }
static inline std::map<std::string,std::string>& gnotes(){ static std::map<std::string,std::string> n; return n; }
static inline void note(const std::string& k,const std::string& v){ std::lock_guard<std::mutex> l(gmx()); gnotes()[k]=v; }
static inline void merge(Ctx& c){
	std::lock_guard<std::mutex> l(gmx()); auto& g=gstat(); if(g.size()<c.st.size()) g.resize(c.st.size());
	for(size_t i=0;i<c.st.size();i++){ OpStat& a=g[i]; OpStat& b=c.st[i];
		a.evals+=b.evals; a.enum_evals+=b.enum_evals; a.enum_nontrivial+=b.enum_nontrivial; a.nontrivial+=b.nontrivial; a.hll.merge(b.hll);
		for(auto& kv:b.classes) a.classes[kv.first]+=kv.second;
		for(auto& kv:b.ratios){ double& m=a.ratios[kv.first]; if(kv.second>m) m=kv.second; }
		for(auto& kv:b.viol){ Viol& v=a.viol[kv.first]; v.count+=kv.second.count; for(auto& w:kv.second.wit) if(v.wit.size()<3) v.wit.push_back(w); }
		for(size_t k=0;k<b.samples.size();k++) if(a.samples.size()<4){ a.samples.push_back(b.samples[k]); a.sample_hex.push_back(b.sample_hex[k]); }
	}
}

// run fn(tid,ctx) on `threads` workers; each ctx is seeded from (seed, label, tid) and merged afterwards
static inline void parallel(const char* label,const std::function<void(int,int,Ctx&)>& fn,int threads=0){
	int T=threads>0?threads:cfg().threads; if(T<1)T=1; std::vector<std::thread> th;
	for(int t=0;t<T;t++) th.emplace_back([&,t]{ Ctx c; c.tid=t; c.rng.reseed(cfg().seed*0x9e3779b97f4a7c15ULL ^ hash_str(label) ^ ((u64)t<<48)); fn(t,T,c); merge(c); });
	for(auto& x:th) x.join();
}
// dynamic chunked sweep over [0,total) : fn(ctx, lo, hi) ; enum_mode on
static inline void sweep(const char* label,u64 total,u64 chunk,const std::function<void(Ctx&,u64,u64)>& fn){
	std::atomic<u64> next(0);
	// --sweep-div N (sanitizer re-runs): only every N-th chunk of a large enumeration is visited, the residue chosen by the seed
	const u64 nchunks=(total+chunk-1)/chunk, div=cfg().sweep_div, pick=cfg().seed%(div?div:1);
	const bool thin= div>1 && nchunks>=4*div;
	parallel(label,[&](int,int,Ctx& c){ c.enum_mode=true; for(;;){ u64 lo=next.fetch_add(chunk); if(lo>=total) break; if(thin && (lo/chunk)%div!=pick) continue; u64 hi=std::min(total,lo+chunk); fn(c,lo,hi);} });
}
// number of cases for this tier, scaled
static inline u64 N(u64 quick,u64 thorough){ double v=(cfg().tier=="thorough"?(double)thorough:(double)quick)*cfg().scale; if(v<1) v=1; return (u64)v; }
static inline bool thorough(){ return cfg().tier=="thorough"; }
static inline bool want(const Op& op){ const std::string& o=cfg().only; if(o.empty()) return true; size_t p=0; while(p<=o.size()){ size_t q=o.find(',',p); if(q==std::string::npos) q=o.size(); std::string t=o.substr(p,q-p); if(!t.empty() && std::string(op.name).find(t)!=std::string::npos) return true; p=q+1; } return false; }

// ---------------------------------------------------------------- sanitizer / crash attribution
static int g_sanfd=-1;
static inline void raw_write(int fd,const char* s){ if(fd>=0){ size_t n=strlen(s); ssize_t r=write(fd,s,n); (void)r; } }
static inline void crumb_line(char* buf,size_t cap,const char* tag,const char* detail){
	const Op* op=g_crumb.op; size_t n=0; n+=snprintf(buf+n,cap-n,"%s %s op=%s in=",tag,detail,op?op->name:"<none>");
	if(op&&g_crumb.in){ const u8* b=(const u8*)g_crumb.in; for(size_t i=0;i<op->in_size && n+3<cap;i++) n+=snprintf(buf+n,cap-n,"%02x",b[i]); }
	snprintf(buf+n,cap-n,"\n");
}
static inline void on_signal(int sig){ char buf[1024]; char d[32]; snprintf(d,32,"sig=%d",sig); crumb_line(buf,sizeof buf,"CRASH",d); raw_write(g_sanfd,buf); raw_write(2,buf); _exit(70+ (sig&15)); }
static inline void install_handlers(){
	if(!cfg().sanlog.empty()) g_sanfd=open(cfg().sanlog.c_str(),O_WRONLY|O_CREAT|O_APPEND,0644);
	signal(SIGABRT,on_signal); signal(SIGFPE,on_signal); signal(SIGILL,on_signal);
#if !defined(VF_SAN)
	signal(SIGSEGV,on_signal); signal(SIGBUS,on_signal);
#endif
}

// ---------------------------------------------------------------- result writer
static inline void write_results(const char* monitor){
	const Config& C=cfg(); FILE* f=C.out.empty()? stdout : fopen(C.out.c_str(),"w"); if(!f){ perror("out"); exit(2);}
	auto& g=gstat(); auto& R=registry();
	fprintf(f,"{\"monitor\":\"%s\",\"tier\":\"%s\",\"seed\":%llu,\"scale\":%g,\"san_only\":%s,\n\"notes\":{",monitor,C.tier.c_str(),(unsigned long long)C.seed,C.scale,C.san_only?"true":"false");
	{ bool fst=true; for(auto& kv:gnotes()){ fprintf(f,"%s\"%s\":\"%s\"",fst?"":",",jesc(kv.first).c_str(),jesc(kv.second).c_str()); fst=false; } }
	fprintf(f,"},\n\"ops\":[\n"); bool first=true;
	for(size_t i=0;i<R.size();i++){ if(i>=g.size()) break; OpStat& s=g[i]; if(!s.evals && !want(*R[i])) continue;
		u64 distinct=s.enum_nontrivial; double est=s.hll.estimate(); u64 e=(u64)(est*0.97); if(e>s.nontrivial) e=s.nontrivial; distinct+=e;
		fprintf(f,"%s{\"op\":\"%s\",\"fmt\":\"%s\",\"evals\":%llu,\"enum_evals\":%llu,\"distinct_nontrivial\":%llu,",first?"":",\n",R[i]->name,R[i]->fmt,(unsigned long long)s.evals,(unsigned long long)s.enum_evals,(unsigned long long)distinct); first=false;
		fprintf(f,"\"classes\":{"); { bool a=true; for(auto& kv:s.classes){ fprintf(f,"%s\"%s\":%llu",a?"":",",jesc(kv.first).c_str(),(unsigned long long)kv.second); a=false; } }
		fprintf(f,"},\"ratios\":{"); { bool a=true; for(auto& kv:s.ratios){ fprintf(f,"%s\"%s\":%.6g",a?"":",",jesc(kv.first).c_str(),kv.second); a=false; } }
		fprintf(f,"},\"samples\":["); for(size_t k=0;k<s.samples.size();k++) fprintf(f,"%s\"%s\"",k?",":"",jesc(s.samples[k]).c_str());
		fprintf(f,"],\"violations\":["); { bool a=true; for(auto& kv:s.viol){ fprintf(f,"%s{\"class\":\"%s\",\"count\":%llu,\"witnesses\":[",a?"":",",jesc(kv.first).c_str(),(unsigned long long)kv.second.count); a=false; for(size_t k=0;k<kv.second.wit.size();k++){ const Witness& w=kv.second.wit[k]; fprintf(f,"%s{\"in_hex\":\"%s\",\"in\":\"%s\",\"got\":\"%s\",\"want\":\"%s\"}",k?",":"",w.in_hex.c_str(),jesc(w.in_txt).c_str(),jesc(w.got).c_str(),jesc(w.want).c_str()); } fprintf(f,"]}"); } }
		fprintf(f,"]}");
	}
	fprintf(f,"\n]}\n"); if(f!=stdout) fclose(f);
}

// ---------------------------------------------------------------- main driver
static inline void parse_args(int argc,char** argv){
	Config& C=cfg();
	for(int i=1;i<argc;i++){ std::string a=argv[i]; auto val=[&]()->std::string{ if(i+1<argc) return argv[++i]; fprintf(stderr,"missing value for %s\n",a.c_str()); exit(2); };
		if(a=="--out") C.out=val(); else if(a=="--tier") C.tier=val(); else if(a=="--seed") C.seed=strtoull(val().c_str(),0,10); else if(a=="--scale") C.scale=atof(val().c_str());
		else if(a=="--threads") C.threads=atoi(val().c_str()); else if(a=="--only") C.only=val(); else if(a=="--replay-op") C.replay_op=val(); else if(a=="--replay-hex") C.replay_hex=val();
		else if(a=="--san-only") C.san_only=true; else if(a=="--sweep-div") C.sweep_div=strtoull(val().c_str(),0,10); else if(a=="--sanlog") C.sanlog=val(); else if(a=="--list") C.list=true;
		else if(a.rfind("--x-",0)==0){ C.extra[a.substr(4)]=val(); }
		else { fprintf(stderr,"unknown arg %s\n",a.c_str()); exit(2);} }
}
// returns exit code: replay → 1 if the check still fails, 0 otherwise
static inline int replay_main(){
	const Config& C=cfg(); for(Op* op: registry()) if(C.replay_op==op->name){
		std::vector<u8> b; if(!unhex(C.replay_hex,b)||b.size()!=op->in_size){ fprintf(stderr,"bad replay input (need %zu bytes)\n",op->in_size); return 2; }
		Ctx c; std::vector<u8> buf(b); g_crumb.op=op; g_crumb.in=buf.data(); c.st[op->id].evals++; printf("replay op=%s input: %s\n",op->name,decode_fields(op->fmt,buf.data(),buf.size()).c_str());
		op->fn(buf.data(),c); g_crumb.op=nullptr; int bad=0; for(auto& kv:c.st[op->id].viol){ bad++; for(auto& w:kv.second.wit) printf("STILL-FAILS class=%s got=%s want=%s\n",kv.first.c_str(),w.got.c_str(),w.want.c_str()); }
		if(!bad) printf("replay: check passes on this input\n"); return bad?1:0; }
	fprintf(stderr,"unknown op %s\n",C.replay_op.c_str()); return 2;
}
// A monitor defines:  static void workload();   and uses  VF_MAIN("name")
#define VF_MAIN(MON) \
	int main(int argc,char** argv){ ::vf::parse_args(argc,argv); ::vf::install_handlers(); \
		if(::vf::cfg().list){ for(::vf::Op* o: ::vf::registry()) printf("%s %zu %s\n",o->name,o->in_size,o->fmt); return 0; } \
		if(!::vf::cfg().replay_op.empty()) return ::vf::replay_main(); \
		::vf::gstat().resize(::vf::registry().size()); workload(); ::vf::write_results(MON); return 0; }

} // namespace vf

// ---------------------------------------------------------------- sanitizer callbacks (sanitizer builds only)
#if defined(VF_SAN)
extern "C" void __ubsan_get_current_report_data(const char** OutIssueKind,const char** OutMessage,const char** OutFilename,unsigned* OutLine,unsigned* OutCol,char** OutMemoryAddr);
extern "C" void __ubsan_on_report(void){
	const char *kind=0,*msg=0,*file=0; unsigned line=0,col=0; char* addr=0;
	__ubsan_get_current_report_data(&kind,&msg,&file,&line,&col,&addr);
	char d[768]; snprintf(d,sizeof d,"kind=%s file=%s line=%u msg=\"%s\"",kind?kind:"?",file?file:"?",line,msg?msg:"");
	for(char* p=d;*p;++p) if(*p=='\n') *p=' ';
	char buf[2048]; ::vf::crumb_line(buf,sizeof buf,"UBSAN",d); ::vf::raw_write(::vf::g_sanfd,buf);
}
extern "C" void __asan_on_error(void){ char buf[1024]; ::vf::crumb_line(buf,sizeof buf,"ASAN","kind=asan-error"); ::vf::raw_write(::vf::g_sanfd,buf); ::vf::raw_write(2,buf); }
#endif
