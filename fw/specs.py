"""Per-property check specifications live in fw/props/<ID>.py, each defining spec(th, seed) -> dict.

dict keys: units (list of driver.Unit), rule (str), assumptions (list), optional: parallel_units (int),
sanitizer (bool: judge UBSan/ASan reports), pre(bdir, repo, units), post(bdir, units, tier, seed) -> (violations, harness_failures),
coverage_extra (dict), exhaustive (bool).
"""
import importlib, os, sys
sys.path.insert(0, os.path.join(os.path.dirname(os.path.abspath(__file__)), 'props'))


def spec(prop, tier, seed):
    try:
        mod = importlib.import_module(prop)
    except ImportError:
        raise SystemExit('no check registered for property ' + prop)
    return mod.spec(tier == 'thorough', seed)


def custom_replay(rec, repo):
    mod = importlib.import_module(rec['property'])
    return mod.custom_replay(rec, repo)
