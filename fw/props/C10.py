from driver import Unit as U, LIBS

SRC = 'mon/C10_matrix.cpp'
SIMD = ['-DGLM_FORCE_INTRINSICS', '-DC10_Q=glm::aligned_highp']

# ------------------------------------------------------------------ C10
def spec(th, seed):
    units = [U('C10_matrix.plain', SRC, 'plain', libs=LIBS),
             # aligned_highp: SSE specialisations of float mat4 determinant / inverse (glm_mat4_inverse), the aligned inv3x3 path and
             # the SIMD mat*vec / mat*mat products used by operator/; double has no SIMD matrix code below AVX, so only the float ops run
             U('C10_matrix.simd-sse42', SRC, 'plain', defs=['-msse4.2'] + SIMD, args=['--only', '_f'], scale=0.3, libs=LIBS),
             # AVX level (glm's AVX paths need -mfma): code selected by GLM_ARCH_AVX_BIT, e.g. in glm_mat4_inverse
             U('C10_matrix.simd-avx2', SRC, 'plain', defs=['-mavx2', '-mfma'] + SIMD, args=['--only', '_f'], scale=0.3, libs=LIBS)]
    units.append(U('C10_matrix.clang', SRC, 'clang', scale=0.1, libs=LIBS))
    # aligned_mediump takes the same exactness and identity checks (aligned_lowp does not: glm divides lowp SIMD vectors with the hardware
    # reciprocal approximation, which C03's statement explicitly allows for lowp types, so exactness cannot be demanded there)
    units.append(U('C10_matrix.simd-avx2.mediump', SRC, 'plain', defs=['-mavx2', '-mfma', '-DGLM_FORCE_INTRINSICS', '-DC10_Q=glm::aligned_mediump'], args=['--only', '_f'], scale=0.1, libs=LIBS))
    if th:
        units.append(U('C10_matrix.Os', SRC, 'plainOs', scale=0.1, libs=LIBS))
        units.append(U('C10_matrix.simd-sse2', SRC, 'plain', defs=['-msse2'] + SIMD, args=['--only', '_f'], scale=0.1, libs=LIBS))
        units.append(U('C10_matrix.O0', SRC, 'plainO0', scale=0.03, libs=LIBS))
    # aliasing supplement (mon/alias.cpp): destination / out-parameter is one of the operands; oracle = the same call with a copy of that operand
    units.append(U('C10_alias', 'mon/alias.cpp', 'plain', defs=['-DALIAS_PROP=2']))
    units.append(U('C10_alias.simd-aligned', 'mon/alias.cpp', 'plain', defs=['-DALIAS_PROP=2'] + ['-DGLM_FORCE_INTRINSICS', '-DGLM_FORCE_DEFAULT_ALIGNED_GENTYPES', '-mavx2', '-mfma']))
    if th:
        units.append(U('C10_alias.clang', 'mon/alias.cpp', 'clang', defs=['-DALIAS_PROP=2']))
        units.append(U('C10_alias.simd-sse41.O0', 'mon/alias.cpp', 'plainO0', defs=['-DALIAS_PROP=2', '-DGLM_FORCE_INTRINSICS', '-DGLM_FORCE_DEFAULT_ALIGNED_GENTYPES', '-msse4.1'], scale=0.2))
    return {
        'units': units,
        'rule': 'aliasing supplement (mon/alias.cpp): every compound/in-place/out-parameter form is run twice from the same state, once with the aliased operand replaced by a copy, and the final states must be bitwise identical; per element type (float, double) and size 2,3,4 (round robin) random matrices from ten families: U*diag(sigma)*V^T with random '
                'orthogonal U,V and spectrum {one small sigma, geometric, one large sigma}, condition target log-uniform up to half the '
                'limit of the statement (a quarter of the cases within the top fifth of the exponent range); uniform entries; signed '
                'permutation times diagonal (optionally perturbed by 2^-2..2^-12); upper/lower (unit) triangular; two nearly dependent '
                'columns (near-singular but in range); small integers -8..8; diagonal / scalar / rotation / symmetric; affine matrices '
                '(last row 0..0 1, any family as linear part, zero / integer / scaled translation); integer unimodular matrices (signed '
                'permutation times <= 6 elementary integer row/column operations, entries <= 64, optionally affine); all scaled by 2^e, '
                'e=0 or uniform in +-4 (float) / +-30 (double); right-hand sides: uniform / gaussian / small-integer / sparse / unit vectors '
                'and a second matrix of the same families; every matrix is fed to determinant, inverse (+ both residual products), '
                'inverseTranspose, adjugate, determinant(transpose), M/v, v/M, M1/M2 and M1/=M2; every second one to determinant(A*B); '
                'every fourth one to qr_decompose / rq_decompose / the nine diagonal builders (also special values) / the four matrix_query '
                'predicates (identity, orthogonal, null and arbitrary matrices perturbed around epsilon)',
        'assumptions': ['oracle = Leibniz determinant, cofactors and adjugate/determinant inverse evaluated in MPFR (512 bits) from the exact '
                        'input entries; a second path (Laplace expansion, inverse*M = I) is compared to 2^-400 on every 64th matrix',
                        'tolerances: determinant (2 x roundings + 2) u S_det (S_det = sum |permutation products|); inverse-like entries '
                        '16 u (S_C/|det| + |C| S_det/det^2)/(1-rho) with rho = 16 u S_det/|det| <= 1/8 (otherwise no verdict, counted); products '
                        'with the inverse: entry bounds propagated + 2 n u sum|terms|; adjugate 12 u S_C; qr/rq 64 u kappaF; unimodular '
                        'small-integer matrices exact (==) whenever every magnitude sum of the formulas is below 2^24 / 2^53',
                        'domain: finite entries, non-zero magnitudes in [2^-14,2^14] (float) / [2^-100,2^100] (double), Frobenius condition '
                        'number |M|_F |M^-1|_F <= 1e4 (float) / 1e8 (double) (an upper bound of the 2-norm condition number); other inputs '
                        'are counted as skipped and never judged',
                        'the statement\'s "bound proportional to the condition number" is measured, not judged: ratio keys starting with '
                        'info(not-a-bound) give max residual/(u*kappaF) per generator family'],
    }
