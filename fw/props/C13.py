from driver import Unit as U, LIBS

SRC = 'mon/C13_interp.cpp'
SIMD = ['-DGLM_FORCE_INTRINSICS', '-DC13_Q=glm::aligned_highp']

# ------------------------------------------------------------------ C13
def spec(th, seed):
    units = [U('C13_interp.plain', SRC, 'plain', libs=LIBS),
             # quaternion memory / constructor-argument order variants (results must not depend on them; operands are built with
             # qua::wxyz and read through the named members only)
             U('C13_interp.wxyz', SRC, 'plain', defs=['-DGLM_FORCE_QUAT_DATA_WXYZ'], scale=0.25, libs=LIBS),
             U('C13_interp.xyzw', SRC, 'plain', defs=['-DGLM_FORCE_QUAT_DATA_XYZW'], scale=0.25, libs=LIBS),
             # aligned_highp + SSE/AVX specialisations of quaternion dot / add / sub / scalar mul / scalar div (float only: the
             # double specialisations of glm/detail/type_quat_simd.inl do not compile, and double has no SIMD dot)
             U('C13_interp.simd-avx2', SRC, 'plain', defs=['-mavx2'] + SIMD, args=['--only', '_f'], scale=0.25, libs=LIBS)]
    if th:
        units.append(U('C13_interp.simd-sse2', SRC, 'plain', defs=['-msse2'] + SIMD, args=['--only', '_f'], scale=0.1, libs=LIBS))
        units.append(U('C13_interp.clang', SRC, 'clang', scale=0.1, libs=LIBS))
        units.append(U('C13_interp.O0', SRC, 'plainO0', scale=0.02, libs=LIBS))
        units.append(U('C13_interp.O3', SRC, 'plainO3', scale=0.1, libs=LIBS))
    return {
        'units': units,
        'rule': 'per element type (float, double): pairs of unit quaternions x, y = cos(theta) x + sin(theta) w (w a random unit tangent, '
                'built in long double, rounded per component; 1 in 5 normalised in T arithmetic instead, |q| within 3u) with the 4D '
                'separation theta drawn from: uniform (0,pi); log-uniform 1e-9 .. 10^0.49 measured from 0 and from pi; cos(theta) = '
                '1 - epsilon + j ulp, j in {0,+-1,+-2,+-3,+-8,+-64,+-1000} (and the mirror image pi - theta) around the linear-fallback '
                'threshold; theta = pi/2 + j ulp around the negation threshold; identical, antipodal and 1-ulp-neighbour pairs; pairs '
                'whose floating-point dot product is exactly 0 (sign-permuted copies, disjoint supports, half-turn pairs); separations '
                'just outside the fallback zone; rational multiples of pi; x and y swapped in 1 of 8 cases. t from {-2,-1,0,1/4,1/2,3/4,1,2,3} '
                '(60%), uniform [-2,3] (30%), 2^-e / 1 - 2^-e / 1 + 2^-e (10%); spin count k uniform in -3..3 (60%) or 0 (40%). '
                'lerp / dual-quaternion lerp: t in [0,1] (glm asserts), unit and arbitrary finite operands. squad: h in {0,1}. '
                'intermediate: keys r^-1 c, c, r c with rotation angle 0, 1e-9..0.1, up to 0.9 rad, and generic neighbours. '
                'compatibility lerp: scalars and vec2/3/4, scalar and vector a in [-2,3].',
        'assumptions': ['oracle = great-arc point cos(psi) x + sin(psi) w, psi = t (theta + k pi), theta = 2 atan2(|x^-z^|,|x^+z^|), evaluated in long double '
                        '(float) / __float128 (double), cross-checked against 256-bit MPFR on 4000 samples per type at start-up; tolerance = 2 x first-order '
                        'rounding-error count of the documented formula (perturbation of the computed cosine propagated through the exact derivative '
                        'of the formula, argument roundings, 11 + 2 nu roundings on the products), see the header comment of mon/C13_interp.cpp',
                        'domain: unit quaternions (| |q| - 1 | <= 4u, measured and fed into the bound), t in [-2,3], k in -3..3; slerp negation and the linear '
                        'fallback are accepted either way when the exact dot product is within its rounding error of the threshold; where the formula is '
                        'ill-conditioned (k != 0 or obtuse mix with Ec/sin^2(theta) > 1/16) only finiteness is demanded; mix is not judged beyond pi - 1e-2; '
                        'shortMix / fastMix are judged on end points, unit length and finiteness only; intermediate for neighbours within 1 rad',
                        'libm sin/acos/atan2 assumed accurate to 2 ulp (glibc documents 1 ulp)'],
    }
