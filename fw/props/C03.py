from driver import Unit as U, LIBS

ISA = {
    'sse2': ['-msse2'], 'sse3': ['-msse3'], 'ssse3': ['-mssse3'], 'sse4.1': ['-msse4.1'], 'sse4.2': ['-msse4.2'],
    # glm's AVX code paths use FMA intrinsics unconditionally (compute_fma<4,double>): AVX levels only compile with -mfma
    'avx': ['-mavx', '-mfma'], 'avx2': ['-mavx2', '-mfma'], 'avx2+fma': ['-mavx2', '-mfma', '-DGLM_FORCE_FMA'],
}


def unit(isa, q, fs='plain', extra=(), scale=1.0, tag=''):
    name = 'C03_simd.%s.%s%s%s' % (isa, q.replace('aligned_', ''), '.' + fs if fs != 'plain' else '', tag)
    return U(name, 'mon/C03_simd.cpp', fs, defs=['-DGLM_FORCE_INTRINSICS', '-DC03_AQ=' + q] + ISA[isa] + list(extra), scale=scale)


def spec(th, seed):
    units = [unit('sse2', 'aligned_highp'), unit('sse4.1', 'aligned_highp'), unit('avx2+fma', 'aligned_highp'),
             unit('sse2', 'aligned_lowp'), unit('avx2', 'aligned_lowp', scale=0.5), unit('sse4.1', 'aligned_mediump', scale=0.5),
             unit('sse2', 'aligned_highp', extra=['-DGLM_FORCE_QUAT_DATA_WXYZ'], scale=0.5, tag='.wxyz'),
             unit('avx2', 'defaultp', extra=['-DGLM_FORCE_DEFAULT_ALIGNED_GENTYPES'], scale=0.5, tag='.default-aligned')]
    if th:
        units = []
        for isa in ISA:
            for q in ('aligned_highp', 'aligned_mediump', 'aligned_lowp'):
                units.append(unit(isa, q, scale=0.25))
        for isa in ('sse2', 'sse4.1', 'avx2+fma'):
            units.append(unit(isa, 'aligned_highp', fs='clang', scale=0.25))
            units.append(unit(isa, 'aligned_highp', extra=['-DGLM_FORCE_QUAT_DATA_WXYZ'], scale=0.25, tag='.wxyz'))
        units.append(unit('avx2', 'defaultp', extra=['-DGLM_FORCE_DEFAULT_ALIGNED_GENTYPES'], scale=0.25, tag='.default-aligned'))
        units.append(unit('sse2', 'aligned_highp', fs='plainO0', scale=0.1))
    # constant-argument supplement (mon/constarg.cpp): scalar arguments as compile-time constants vs the same values read from volatiles; results must be bitwise identical
    units.append(U('C03_constarg.simd-aligned', 'mon/constarg.cpp', 'plain', defs=['-DCONST_PROP=11'] + ['-DGLM_FORCE_INTRINSICS', '-DGLM_FORCE_DEFAULT_ALIGNED_GENTYPES', '-mavx2', '-mfma']))
    units.append(U('C03_constarg.simd-aligned.sse2', 'mon/constarg.cpp', 'plain', defs=['-DCONST_PROP=11', '-DGLM_FORCE_INTRINSICS', '-DGLM_FORCE_DEFAULT_ALIGNED_GENTYPES', '-msse2']))
    if th:
        units.append(U('C03_constarg.simd-aligned.clang', 'mon/constarg.cpp', 'clang', defs=['-DCONST_PROP=11'] + ['-DGLM_FORCE_INTRINSICS', '-DGLM_FORCE_DEFAULT_ALIGNED_GENTYPES', '-mavx2', '-mfma']))
        units.append(U('C03_constarg.simd-aligned.O3', 'mon/constarg.cpp', 'plainO3', defs=['-DCONST_PROP=11'] + ['-DGLM_FORCE_INTRINSICS', '-DGLM_FORCE_DEFAULT_ALIGNED_GENTYPES', '-mavx2', '-mfma']))
        units.append(U('C03_constarg.simd-aligned.O1', 'mon/constarg.cpp', 'plainO1', defs=['-DCONST_PROP=11'] + ['-DGLM_FORCE_INTRINSICS', '-DGLM_FORCE_DEFAULT_ALIGNED_GENTYPES', '-mavx2', '-mfma']))
    return {
        'units': units,
        'parallel_units': 4,
        'rule': 'one operation table (vec1-4 x float/double/int/uint operators, common, geometric, integer functions; mat2/3/4 and rectangular products, transpose, determinant, inverse; quaternion algebra; aligned<->packed and int<->float conversions) evaluated in every build on aligned-qualified (SIMD) operands and on packed_highp (generic C++ = the GLM_FORCE_PURE code) operands built from the same bits: special-value lattice rotations, ties k+0.5, |x|>=2^23, random log-uniform/small-integer/uniform values; aligned vec3 operands are built both by constructor and by member writes over a buffer pre-filled with NaN/inf/0/1/all-ones so the hidden 4th lane is adversarial; faceforward inputs with dot(Nref,I)==0 exactly, refract on both sides of k=0',
        'assumptions': [
            'reference side = packed_highp types inside the same GLM_FORCE_INTRINSICS build: they run the generic C++ code that GLM_FORCE_PURE compiles for every type',
            'classes: identical value (NaN==NaN; +0 and -0 are the same value, zero-sign differences are counted as observations) for operators, comparison, selection, conversion, rounding-to-integer, sqrt, transpose, matrixCompMult, outerProduct, quaternion +,-,scalar; |aligned-pure| <= 8*u*S (S = largest intermediate term computed in long double) for mod, mix, smoothstep, fma, dot, length, distance, normalize, reflect, refract, cross, products, determinant, inverse (cofactor-scheme bound), quaternion products; refract/faceforward branch must be the same unless k is within its own rounding error of 0; aligned_lowp float may use rcp/rsqrt: relative 2^-11 per hardware approximation, up to three composed in one result',
            'domains: divisors != 0, shift counts < 32, signed operands small enough not to overflow, no NaN for min/max/clamp/step/sign, quiet NaNs only, edge0<edge1, matrices inverted only if |det| > 1e-3 * sum|terms|, quaternion norms in the normal range',
            'not instantiable on this tree (compile errors inside glm, not judged): aligned uvec4 bitCount/bitfieldReverse/findMSB (func_integer_simd.inl), aligned ivec4/uvec4 min/max/clamp below -msse4.1, AVX levels without -mfma',
            'NEON paths cannot be executed on this machine',
        ],
    }
