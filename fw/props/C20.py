from driver import Unit as U, LIBS

# Every other property's monitor (all of them stay inside the documented domains) is re-run under ASan+UBSan as a second,
# independent observer. Units run single-threaded (16 units side by side) so that the first operation to reach a source
# location — UBSan reports each location once per process — is the same on every run, which keeps violation keys stable.


def san(name, src, scale, fs='gsan', defs=(), args=(), libs=()):
    return U(name + '.' + fs, src, fs, defs=list(defs), args=list(args), scale=scale, role='san', libs=list(libs), timeout=3000)


def spec(th, seed):
    STR = ['--x-stride', '4099']
    def D(n): return ['--sweep-div', str(n)]
    u = []
    u.append(san('C20_edge', 'mon/C20_edge.cpp', 0.5 if not th else 1.0))
    # the same edge monitor with SIMD default-aligned types (aligned vec3 is wider than three elements: pointer builders, conversions)
    u.append(san('C20_edge.simd-aligned', 'mon/C20_edge.cpp', 0.25, defs=['-DGLM_FORCE_INTRINSICS', '-DGLM_FORCE_DEFAULT_ALIGNED_GENTYPES', '-msse2']))
    # ... and with packed default types in an AVX2 build (256-bit double registers: aligned<->packed conversions store/load whole registers)
    u.append(san('C20_edge.simd-avx2', 'mon/C20_edge.cpp', 0.25, defs=['-DGLM_FORCE_INTRINSICS', '-mavx2', '-mfma']))
    u.append(san('C05_integer', 'mon/C05_integer.cpp', 0.02, args=D(8)))
    u.append(san('C18_bitfield', 'mon/C18_bitfield.cpp', 0.02, args=D(256)))
    u.append(san('C18_pow2mult.p3', 'mon/C18_pow2mult.cpp', 0.02, defs=['-DC18_PART=3'], args=D(64)))
    u.append(san('C11_common', 'mon/C11_common.cpp', 0.01, args=STR + D(64)))
    u.append(san('C06_misc', 'mon/C06_misc.cpp', 0.02, args=STR + D(64)))
    u.append(san('C06_norm', 'mon/C06_norm.cpp', 0.02, args=STR + D(64)))
    u.append(san('C14_ulp', 'mon/C14_ulp.cpp', 0.01, args=STR + D(64)))
    if th:
        for p in (1, 2, 4, 5):
            u.append(san('C18_pow2mult.p%d' % p, 'mon/C18_pow2mult.cpp', 0.02, defs=['-DC18_PART=%d' % p], args=D(64)))
        u.append(san('C11_vec4', 'mon/C11_vec4.cpp', 0.02))
        u.append(san('C07_half', 'mon/C07_half.cpp', 0.02, defs=['-mf16c'], args=STR))
        u.append(san('C14_relational', 'mon/C14_relational.cpp', 0.01, args=D(64)))
        u.append(san('C19_color', 'mon/C19_color.cpp', 0.005, args=D(256)))
        for p in (1, 2, 3, 4, 5, 6, 7):   # template-heavy: ~6 min of compile time each under the sanitizers
            u.append(san('C01_vec.part%d' % p, 'mon/C01_vec.cpp', 0.3, defs=['-DPART=%d' % p]))
        for p in (1, 2, 3, 4):
            u.append(san('C02_matrix.p%d' % p, 'mon/C02_matrix.cpp', 0.05, defs=['-DPART=%d' % p]))
        u.append(san('C04_rotation', 'mon/C04_rotation.cpp', 0.01, libs=LIBS))
        u.append(san('C10_matrix', 'mon/C10_matrix.cpp', 0.01, libs=LIBS))
        u.append(san('C12_geometric', 'mon/C12_geometric.cpp', 0.01, libs=LIBS))
        u.append(san('C13_interp', 'mon/C13_interp.cpp', 0.01, libs=LIBS))
        u.append(san('C03_simd.sse2', 'mon/C03_simd.cpp', 0.05, defs=['-DGLM_FORCE_INTRINSICS', '-msse2', '-DC03_AQ=aligned_highp']))
        u.append(san('C03_simd.avx2', 'mon/C03_simd.cpp', 0.05, defs=['-DGLM_FORCE_INTRINSICS', '-mavx2', '-mfma', '-DC03_AQ=aligned_highp']))
        # second compiler's sanitizer runtime
        u.append(san('C20_edge', 'mon/C20_edge.cpp', 0.5, fs='csan'))
        u.append(san('C05_integer', 'mon/C05_integer.cpp', 0.02, fs='csan', args=D(8)))
        u.append(san('C18_bitfield', 'mon/C18_bitfield.cpp', 0.02, fs='csan', args=D(256)))
        u.append(san('C11_common', 'mon/C11_common.cpp', 0.01, fs='csan', args=STR + D(64)))
        u.append(san('C06_misc', 'mon/C06_misc.cpp', 0.02, fs='csan', args=STR + D(64)))
    # operator-swizzle proxies read lanes of the vector they live in: the C17 swizzle monitor reads every swizzle of exactly-sized heap
    # objects under ASan (quick: packed float; thorough: all of C17's sanitizer units). Its generated sources need C17's pre hook.
    import C17
    s17 = C17.spec(True, seed)
    g17 = [x for x in s17['units'] if x.flagset == 'gsan' and (th or x.name.endswith('op.f32.packed.gsan'))]
    for x in g17:
        x.role = 'san'; x.timeout = 3000
    u += g17

    def pre(bdir, repo, units):
        mine = [x for x in units if x in g17 or x.src.startswith('mon/C17')]
        if mine:
            s17['pre'](bdir, repo, mine)

    return {
        'pre': pre,
        'units': u,
        'parallel_units': 16,
        'sanitizer': True,
        'rule': 'the monitors of the other properties (C01 C02 C03 C04 C05 C06 C07 C10 C11 C12 C13 C14 C18 C19) and a dedicated domain-edge monitor (abs over all non-MIN integers, sign over all integers, float->int vector conversions up to the edge of the target range, roundEven/iround/uround, mask/shift/rotate/extract/insert/fill over the whole count range, integer division with in-domain divisors, power-of-two/multiple helpers at the type edges) are rebuilt with -fsanitize=address,undefined,float-cast-overflow (-fno-sanitize=shift-base) and re-run at reduced case counts (large enumerations visit every N-th chunk / stride 4099, residue from the seed); oracle = any sanitizer report located under glm/, attributed to (operation, input) through the monitor breadcrumb',
        'assumptions': [
            'UBSan/ASan of g++ 12 (quick) and additionally clang 14 (thorough); recover mode, each source location is reported once per process; units run single-threaded for deterministic attribution',
            'left shift of a negative value (shift-base) is not flagged: defined since C++20 and what ivec << n means in GLSL; strict-aliasing violations and reads of inactive union members are invisible to the installed sanitizers',
            'every input stays inside the documented domain of its operation (the domain restrictions are those of the monitor that generates it); the consequence "results do not depend on the optimisation level" is observed separately by the -O0/-O3 units of C01..C19',
        ],
    }
