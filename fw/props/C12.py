from driver import Unit as U, LIBS

SRC = 'mon/C12_geometric.cpp'
SIMD = ['-DGLM_FORCE_INTRINSICS', '-DC12_Q=glm::aligned_highp']

# ------------------------------------------------------------------ C12
def spec(th, seed):
    units = [U('C12_geometric.plain', SRC, 'plain', libs=LIBS),
             # aligned_highp + SSE/AVX specialisations of float vec3/vec4 (dot, cross, length, distance, normalize, faceforward,
             # reflect, refract); double has no SIMD specialisation of these functions, so only the float ops are run
             U('C12_geometric.simd-avx2', SRC, 'plain', defs=['-mavx2'] + SIMD, args=['--only', '_f'], scale=0.25, libs=LIBS)]
    if th:
        units.append(U('C12_geometric.simd-sse2', SRC, 'plain', defs=['-msse2'] + SIMD, args=['--only', '_f'], scale=0.1, libs=LIBS))
        units.append(U('C12_geometric.clang', SRC, 'clang', scale=0.1, libs=LIBS))
        units.append(U('C12_geometric.O0', SRC, 'plainO0', scale=0.02, libs=LIBS))
    return {
        'units': units,
        'rule': 'per element type (float, double) and per length 1..4 (round robin): random finite vectors = direction pattern '
                '(uniform / gaussian / sparse / 2^-12 dynamic range / small integers / special values / one-hot) times 2^E, '
                'E=0 or uniform in +-20 (float) / +-100 (double); the second and third vector are independent or in a forced relation '
                'to the first (identical, negated, scaled, exactly orthogonal, nearly parallel, nearly orthogonal, 1-ulp neighbour); '
                'faceforward: dot(Nref,I) clearly signed, exactly 0 (disjoint supports, small-integer orthogonal pairs) and within '
                'rounding of 0; refract: unit and non-unit I,N with eta uniform in (0,4], log-uniform, 1, and eta placed within a few '
                'ulps of the critical value 1/sqrt(1-dot^2) so that k straddles 0; closestPointOnLine: point = a+t(b-a)+offset with t at '
                'and around 0 and 1; triangleNormal: independent vertices and short edges far from the origin; every vector overload '
                'vec1..vec4 plus the scalar overloads (dot, length, distance, faceforward, reflect, refract, length2, distance2, angle); '
                'SIMD units build aligned vec3 operands both directly and through component-wise arithmetic (hidden 4th lane = NaN)',
        'assumptions': ['oracle = defining formulas evaluated in long double (float inputs) / __float128 (double inputs), products exact; '
                        'tolerances = 2 x rigorous first-order rounding-error count x unit roundoff x magnitude sum of the formula, plus a few '
                        'denormal quanta; decisions (faceforward sign, refract k<0, segment clamping, orientedAngle sign) are demanded exactly '
                        'only when the deciding quantity exceeds its own rounding-error bound, otherwise either branch is accepted',
                        'domain: all components finite, squared norms in [2^-80,2^80] (float) / [2^-600,2^600] (double), eta in [2^-20,16], '
                        'non-unit refract inputs with squared norm in [2^-10,2^10], lxNorm Depth 1..8, orthonormalize/triangleNormal inputs '
                        'not closer to degenerate than 2^-8..2^-10 relative; inputs outside are counted as skipped and never judged',
                        'libm acos/pow assumed accurate to 2 ulp (glibc documents 1 ulp)'],
    }
