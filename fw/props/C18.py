from driver import Unit as U, LIBS

SRC1 = 'mon/C18_pow2mult.cpp'
SRC2 = 'mon/C18_bitfield.cpp'
PARTS = [(1, 'int8'), (2, 'int16'), (3, 'int32'), (4, 'int64'), (5, 'float+gtx')]


# ------------------------------------------------------------------ C18
def spec(th, seed):
    # the pow2/multiple monitor is template heavy: it is compiled as five translation units (one per element width) in parallel
    units = [U('C18_pow2mult.p%d.plain' % p, SRC1, 'plain', defs=['-DC18_PART=%d' % p]) for p, _ in PARTS]
    units.append(U('C18_bitfield.plain', SRC2, 'plain'))
    if th:
        # second compiler (different promotion/UB exploitation, builtin selection) at reduced workload
        # (--x-light 1: enumerations sized as in the quick tier; random streams scaled down)
        LIGHT = ['--x-light', '1']
        SIMD = ['-mavx2', '-DGLM_FORCE_INTRINSICS']
        units += [U('C18_pow2mult.p%d.clang' % p, SRC1, 'clang', defs=['-DC18_PART=%d' % p], args=LIGHT, scale=0.05) for p, _ in PARTS]
        units.append(U('C18_bitfield.clang', SRC2, 'clang', args=LIGHT, scale=0.05))
        units += [U('C18_pow2mult.p%d.O0' % p, SRC1, 'plainO0', defs=['-DC18_PART=%d' % p], args=LIGHT, scale=0.02) for p in (1, 3, 5)]
        units += [U('C18_pow2mult.p%d.simd-avx2' % p, SRC1, 'plain', defs=['-DC18_PART=%d' % p] + SIMD, args=LIGHT, scale=0.05) for p in (3, 4, 5)]
        units.append(U('C18_bitfield.simd-avx2', SRC2, 'plain', defs=SIMD, args=LIGHT, scale=0.05))
    # constant-argument supplement (mon/constarg.cpp): scalar arguments as compile-time constants vs the same values read from volatiles; results must be bitwise identical
    units.append(U('C18_constarg', 'mon/constarg.cpp', 'plain', defs=['-DCONST_PROP=5']))
    if th:
        units.append(U('C18_constarg.clang', 'mon/constarg.cpp', 'clang', defs=['-DCONST_PROP=5']))
        units.append(U('C18_constarg.O3', 'mon/constarg.cpp', 'plainO3', defs=['-DCONST_PROP=5']))
        units.append(U('C18_constarg.O1', 'mon/constarg.cpp', 'plainO1', defs=['-DCONST_PROP=5']))
    return {
        'units': units,
        'rule': ('power-of-two family (isPowerOfTwo, next/prev/ceil/floor/roundPowerOfTwo, gtx/bit aliases, highest/lowestBitValue), integer log2, '
                 'findNSB and the multiple family (isMultiple, next/prev/ceil/floor/roundMultiple; scalar, vec1..4 and vector-scalar overloads) for '
                 'i8..u64: every value of the 8/16-bit types through every function, crossed with every n in 1..width+1 (findNSB) and with every '
                 'positive multiple (8-bit: both tiers; 16-bit: thorough tier, quick tier uses 1..70, 2^k+-1, primes and near-MAX multiples); '
                 '32/64-bit: 2^k, 2^k+-1, 2^k+2^j, 1.5*2^k+-1 (and negations), boundary lattice, k*m+d around every listed multiple including the extreme '
                 'representable quotients, random values. Floating multiples (float/double, scalar and vec1..4): lattices of exact multiples of 25 '
                 'steps (dyadic and non-dyadic), quarter/half-way points, one-ulp neighbours, random (x,m) with x/m up to 2^19. gtx/integer: sqrt on every '
                 'uint and non-negative int (thorough; quick: all below 2^22 and all r^2+-1), pow on every base in [-300,300] x every representable '
                 'exponent plus lattice/random, mod on all lattice pairs plus random (equal, adjacent, negated operands forced), factorial on every '
                 'representable argument. gtc/bitfield: mask for every count 0..width, rotate for every value x every shift (8/16-bit) and '
                 'fill for every value x every (first,count) with first+count<=width (8/16-bit), lattice/runs/random for 32/64-bit; bitfieldInterleave: '
                 'all 2^16 8-bit pairs, all 2^24 8-bit triples, all 2^32 16-bit pairs and all 2^32 8-bit quadruples in the thorough tier (2^28 each in the '
                 'quick tier), single bits in every operand position, lattice tuples and random for the wider overloads; bitfieldDeinterleave on '
                 'every 16-bit word, every 32-bit word (thorough; 2^28 quick), lattice/random 64-bit words, and as round trip'),
        'assumptions': [
            'oracle = loop / __int128 reference models written from the documentation text and the property statement; floating multiples: long double '
            'evaluation of the exact real answer compared within 4*u*(|x|+m) (ties within rounding accept either neighbour)',
            'domains: Multiple > 0; power-of-two family x != 0; answers must be representable in the type; signed MIN excluded where its magnitude/negation is needed; '
            'negative x is judged only for isPowerOfTwo/next/ceilPowerOfTwo (sign-symmetric convention pinned by glm tests); rotate shifts in [0,width); '
            'fill ranges with first in [0,width), first+count <= width; mask counts in [0,width]; findNSB n in [1,width+1]; mod divisor != 0 and not (INT_MIN,-1); '
            'floating multiples: finite normal, 2^-40 <= m <= 2^40, |x| <= 2^20 m',
            'ties of roundPowerOfTwo/roundMultiple (equidistant neighbours) accept either neighbour',
        ],
    }
