import os, sys
from driver import Unit as U, LIBS, VERIF, FLAGSETS, log

sys.path.insert(0, os.path.join(VERIF, 'mon'))
import gen_C17

SWZ = 'mon/C17_swizzle.cpp'
CTOR = 'mon/C17_ctor.cpp'
TBIT = {'f32': 1, 'f64': 2, 'i32': 4, 'u32': 8, 'i8': 16, 'b': 32}
FSW = ['-DGLM_FORCE_SWIZZLE']
FOP = ['-DGLM_FORCE_SWIZZLE', '-DGLM_FORCE_INTRINSICS']


def swz(name, form, tmask, qmask, flagset='plain', defs=(), smask=7):
    return U('C17_swz.' + name, SWZ, flagset, defs=['-DC17_FORM=%d' % form, '-DC17_TMASK=%d' % tmask, '-DC17_QMASK=%d' % qmask, '-DC17_SMASK=%d' % smask] + list(defs))


SETS = (('xyzw', 1), ('rgba', 2), ('stpq', 4))


def ctor(cfg, kind, part, flagset='plain', suffix=''):
    prefix = {'vec': 'C17_cv_', 'mat': 'C17_cm_', 'qua': 'C17_cq_'}[kind] + cfg
    defs = ['-DC17_INC="%s_p%d.inc"' % (prefix, part), '-DC17_DESC_INC="%s_desc.inc"' % prefix, '-DC17_PART=%d' % part,
            '-DC17_OPNAME=ctor_%s' % kind] + list(gen_C17.CTOR_CONFIGS[cfg][0])
    return U('C17_ctor.%s.%s.p%d%s' % (kind, cfg, part, suffix), CTOR, flagset, defs=defs)


def make_pre(th):
    def pre(bdir, repo, units):
        """generate the enumerations into the build directory (the same for every seed; the seed only selects one tag assignment)"""
        gen_C17.generate(bdir, repo, th, log=log)
        def one(u):
            u.defs = [d for d in u.defs if not (d.startswith('-I') and os.sep + 'build' + os.sep in d) and not d.startswith('-DC17_AVAIL_INC')] + ['-I' + bdir]
            if '-DC17_FORM=2' in u.defs:
                # operator-form unit: which (type, qualifier, L, N) read classes are a hard compile error inside glm in THIS configuration?
                tmask = int([d for d in u.defs if d.startswith('-DC17_TMASK=')][0].split('=')[1])
                qmask = int([d for d in u.defs if d.startswith('-DC17_QMASK=')][0].split('=')[1])
                types = [t for t in TBIT if tmask & TBIT[t]]; quals = [q for q, b in (('ph', 1), ('ah', 2)) if qmask & b]
                flags = [d for d in u.defs if not d.startswith('-DC17_') and not d.startswith('-I')]
                bad = gen_C17.probe_swizzle_reads(repo, flags, bdir, u.name, types, quals, compiler=FLAGSETS[u.flagset][0],
                                                    codegen=[f for f in FLAGSETS[u.flagset][1] if f.startswith('-O')])
                inc = 'C17_avail_%s.inc' % u.name
                with open(os.path.join(bdir, inc), 'w') as f:
                    f.write('// generated: operator-swizzle read classes that do not compile in unit %s\n' % u.name)
                    for (t, q, L, N), err in sorted(bad.items()):
                        f.write('\tif(std::is_same<T,%s>::value && aligned==%s && L==%d && N==%d) return false; // %s\n' % (
                            gen_C17.TYPES[t], 'true' if q == 'ah' else 'false', L, N, err[:160].replace('\\', '/')))
                u.defs.append('-DC17_AVAIL_INC="%s"' % inc)
                if bad: log('C17 probe %s: operator-swizzle reads that do not compile: %s' % (u.name, sorted(bad)))
        from concurrent.futures import ThreadPoolExecutor
        with ThreadPoolExecutor(max_workers=12) as ex:
            list(ex.map(one, units))
    return pre


# ------------------------------------------------------------------ C17
def spec(th, seed):
    units = []
    # -- operator-form swizzles (the compile-heavy units first)
    types = ['f32', 'f64', 'i32', 'u32'] + (['i8', 'b'] if th else [])
    # (one unit per element type x qualifier: instantiating a vec type whose union holds ~1000 swizzle proxies has a large fixed cost,
    #  so splitting further, e.g. by letter set with C17_SMASK, does not pay)
    if th:
        for t in ('f32', 'f64', 'i32', 'u32'):
            for qn, qm in (('packed', 1), ('aligned', 2)):
                units.append(swz('op.%s.%s.gsan' % (t, qn), 2, TBIT[t], qm, flagset='gsan', defs=FOP))
        units.append(swz('op.f32.aligned.avx.gsan', 2, 1, 2, flagset='gsan', defs=FOP + ['-mavx']))
    for t in types:
        for qn, qm in (('packed', 1), ('aligned', 2)):
            units.append(swz('op.%s.%s' % (t, qn), 2, TBIT[t], qm, defs=FOP))
    units.append(swz('op.f32.aligned.avx', 2, 1, 2, defs=FOP + ['-mavx']))
    if th:
        units.append(swz('op.f32.clang', 2, 1, 3, flagset='clang', defs=FOP))
        units.append(swz('op.i32.clang', 2, 4, 3, flagset='clang', defs=FOP))
    # -- swizzle proxies as operands of the arithmetic operators and as constructor arguments (mon/C17_swzops.cpp)
    units.append(U('C17_swzops.packed', 'mon/C17_swzops.cpp', 'plain', defs=FOP + ['-msse2']))
    units.append(U('C17_swzops.aligned', 'mon/C17_swzops.cpp', 'plain', defs=FOP + ['-DGLM_FORCE_DEFAULT_ALIGNED_GENTYPES', '-mavx2', '-mfma']))
    if th:
        units.append(U('C17_swzops.packed.clang', 'mon/C17_swzops.cpp', 'clang', defs=FOP + ['-msse2']))
        units.append(U('C17_swzops.aligned.O0', 'mon/C17_swzops.cpp', 'plainO0', defs=FOP + ['-DGLM_FORCE_DEFAULT_ALIGNED_GENTYPES', '-msse2']))
    # -- constructors
    plan = gen_C17.plan(th)
    for cfg in plan:
        for kind in ('vec', 'mat', 'qua'):
            for p in range(plan[cfg][kind]):
                units.append(ctor(cfg, kind, p))
    if th:
        for p in range(plan['cxx98']['vec']): units.append(ctor('cxx98', 'vec', p, 'clang', '.clang'))
        for p in range(plan['simd']['vec']): units.append(ctor('simd', 'vec', p, 'clang', '.clang'))
        for p in range(plan['cxx98']['mat']): units.append(ctor('cxx98', 'mat', p, 'plainO0', '.O0'))
    # -- member-function swizzles, free functions
    allt = sum(TBIT[t] for t in types)
    units.append(swz('fn', 1, 15, 1, defs=FSW))
    units.append(swz('free', 3, 15, 1))
    units.append(swz('free.simd', 3, 15, 3, defs=['-DGLM_FORCE_INTRINSICS']))
    if th:
        units.append(swz('fn.i8b', 1, 48, 1, defs=FSW))
        units.append(swz('free.i8b', 3, 48, 3, defs=['-DGLM_FORCE_INTRINSICS']))
        units.append(swz('fn.clang', 1, 15, 1, flagset='clang', defs=FSW))
        units.append(swz('fn.gsan', 1, 15, 1, flagset='gsan', defs=FSW))
        units.append(swz('free.simd.gsan', 3, 15, 3, flagset='gsan', defs=['-DGLM_FORCE_INTRINSICS']))
    only = os.environ.get('VERIF_C17_ONLY')      # development aid: regular expression selecting units by name
    if only:
        import re
        units = [u for u in units if re.search(only, u.name)]
    return {
        'units': units, 'pre': make_pre(th), 'parallel_units': 4, 'sanitizer': bool(th), 'exhaustive': True,
        'rule': 'generated by mon/gen_C17.py at check time. Swizzles: every 2-, 3- and 4-letter word over xyzw, rgba and stpq whose letters exist in a '
                'source of length 2, 3, 4 (3 x (4+8+16 | 9+27+81 | 16+64+256) accessors) is evaluated as member function v.zyx() '
                '(GLM_FORCE_SWIZZLE), as operator member v.zyx (GLM_FORCE_SWIZZLE + GLM_FORCE_INTRINSICS; packed_highp and aligned_highp, SSE2 and the '
                'AVX permute path) and as gtx/vec_swizzle free function (xyzw words, sources of length 1..4, packed and aligned), for element types '
                'float, double, int, uint (+ int8, bool in the thorough tier); each read is made on an object inside a poisoned buffer and on an exactly-sized '
                'heap object (thorough: also under ASan+UBSan, each class in a forked child); every word without repeated letter is written through with '
                '=, +=, -=, *=, /= (vector right-hand side) and = scalar, and every full-length permutation with the vector itself as right-hand side '
                '(v.zyx = v, v.wzyx -= v ...). Constructors: every argument shape of vec1..vec4 (single scalar, single vec1, every scalar/vec1 mix, every '
                'composition of the length into scalars, vec1, vec2, vec3 in every order, single vector of equal or greater length) x destination element type x '
                'destination qualifier x declared source qualifiers x element-type patterns (full cross product of float/double/int/uint for up to 3 '
                'arguments [4 in the thorough tier], a covering set otherwise); matrices 2x2..4x4: scalar (diagonal), element lists and column lists of the same '
                'and of mixed element types, same-shape conversion across element type and qualifier; quaternions: (w,x,y,z), wxyz(), (s, vec3), conversion; each '
                'under the default configuration, GLM_FORCE_CXX98 (pre-C++11 constructor bodies) and GLM_FORCE_INTRINSICS (aligned <-> packed; thorough: also AVX2). '
                'Every case is run on 3-4 tag assignments (primes; signed fractional values; distinct values and a 0/1 pattern drawn from the seed).',
        'assumptions': [
            'oracle: swizzles - indices derived at run time from the letters of the accessor name; constructors - expected component list written by the generator from the '
            'argument list alone (left-to-right fill, static_cast per component, truncation, broadcast, diagonal); all comparisons bitwise; results and sources are '
            'read/written with memcpy (vec, mat columns) or by member name (qua), not through glm accessors',
            'tags stay inside the domain of static_cast: no negative value into an unsigned source, no negative floating value converted to an unsigned element type, '
            'magnitudes < 64; compound swizzle assignments use non-zero operands; the oracle applies the same C++ operator in the element type',
            'an accessor / constructor shape that does not compile is established by SFINAE detection inside the monitor (swizzles) or by a compile probe at check time '
            '(constructor shapes, gen_C17.probe_vec_shapes) and reported as a violation of its own class; vec1 arguments of another qualifier than the destination in '
            'scalar/vec1 mixes are not declared by glm (vec<1,X,Q>) and are not generated',
        ],
    }
