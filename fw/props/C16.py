from driver import Unit as U, LIBS

SRC = 'mon/C16_layout.cpp'
INTR = '-DGLM_FORCE_INTRINSICS'
ISA = {
    'sse2': ['-msse2'], 'sse3': ['-msse3'], 'ssse3': ['-mssse3'], 'sse4.1': ['-msse4.1'], 'sse4.2': ['-msse4.2'],
    # glm's AVX code paths use FMA intrinsics unconditionally: AVX levels only compile with -mfma
    'avx': ['-mavx', '-mfma'], 'avx2': ['-mavx2', '-mfma'],
}
LEAN = ['-DC16_LEAN=1']     # highp qualifiers only (secondary configurations: the build is 2-3x cheaper)


def unit(tag, defs=(), fs='plain', lean=False):
    name = 'C16_layout.' + tag + ('' if fs == 'plain' else '.' + fs)
    return U(name, SRC, fs, defs=list(defs) + (LEAN if lean else []))


def simd(isa, extra=(), tag='', fs='plain', lean=False):
    return unit(isa + tag, [INTR] + ISA[isa] + list(extra), fs, lean)


# ------------------------------------------------------------------ C16
def spec(th, seed):
    units = [
        # configurations without language extensions (gcc: no anonymous struct, no aligned types)
        unit('default'),
        unit('swizzle-functions', ['-DGLM_FORCE_SWIZZLE'], lean=True),
        unit('xyzw-only', ['-DGLM_FORCE_XYZW_ONLY'], lean=True),
        unit('aligned-gentypes', ['-DGLM_FORCE_ALIGNED_GENTYPES'], lean=True),
        unit('default-aligned-gentypes', ['-DGLM_FORCE_DEFAULT_ALIGNED_GENTYPES'], lean=True),
        unit('size_t-length', ['-DGLM_FORCE_SIZE_T_LENGTH']),
        unit('quat-wxyz', ['-DGLM_FORCE_QUAT_DATA_WXYZ'], lean=True),
        unit('ctor-init', ['-DGLM_FORCE_CTOR_INIT'], lean=True),
        unit('cxx98', ['-DGLM_FORCE_CXX98'], lean=True),
        # GLM_FORCE_INTRINSICS: language extensions on -> anonymous struct + data member, aligned_* qualifiers, SIMD storage
        simd('sse2'),
        simd('sse4.1', lean=True),
        simd('avx2'),
        simd('sse2', ['-DGLM_FORCE_SWIZZLE'], '.swizzle-operators', lean=True),
        simd('avx2', ['-DGLM_FORCE_SWIZZLE', '-DGLM_FORCE_DEFAULT_ALIGNED_GENTYPES'], '.swizzle-operators.default-aligned', lean=True),
        simd('avx2', ['-DGLM_FORCE_DEFAULT_ALIGNED_GENTYPES'], '.default-aligned', lean=True),
        simd('sse2', ['-DGLM_FORCE_ALIGNED_GENTYPES', '-DGLM_FORCE_QUAT_DATA_WXYZ', '-DGLM_FORCE_SIZE_T_LENGTH'], '.aligned-gentypes.wxyz.size_t', lean=True),
        simd('sse4.1', ['-DGLM_FORCE_XYZW_ONLY', '-DGLM_FORCE_CTOR_INIT'], '.xyzw-only.ctor-init', lean=True),
    ]
    if th:
        units += [
            unit('default', fs='clang'), unit('default', fs='plainO0'),
            unit('swizzle-functions', ['-DGLM_FORCE_SWIZZLE'], fs='clang', lean=True),
            unit('xyzw-only', ['-DGLM_FORCE_XYZW_ONLY'], fs='clang', lean=True),
            unit('size_t-length', ['-DGLM_FORCE_SIZE_T_LENGTH'], fs='clang', lean=True),
            unit('quat-wxyz', ['-DGLM_FORCE_QUAT_DATA_WXYZ'], fs='clang', lean=True),
            unit('ctor-init', ['-DGLM_FORCE_CTOR_INIT'], fs='clang', lean=True),
            unit('cxx98', ['-DGLM_FORCE_CXX98'], fs='clang', lean=True),
            unit('cxx11', ['-DGLM_FORCE_CXX11'], lean=True), unit('cxx14', ['-DGLM_FORCE_CXX14'], lean=True),
            unit('pure', ['-DGLM_FORCE_PURE', '-mavx2', '-mfma'], lean=True),
            unit('all-plain', ['-DGLM_FORCE_SWIZZLE', '-DGLM_FORCE_SIZE_T_LENGTH', '-DGLM_FORCE_QUAT_DATA_WXYZ', '-DGLM_FORCE_CTOR_INIT', '-DGLM_FORCE_DEFAULT_ALIGNED_GENTYPES'], lean=True),
            simd('sse3', lean=True), simd('ssse3', lean=True), simd('sse4.2', lean=True), simd('avx', lean=True), simd('sse4.1', tag='.all-qualifiers'),
            simd('sse2', fs='clang'), simd('sse4.1', fs='clang', lean=True), simd('avx', fs='clang', lean=True), simd('avx2', fs='clang'),
            simd('sse2', fs='plainO0', lean=True), simd('avx2', fs='plainO3', lean=True),
            simd('sse2', ['-DGLM_FORCE_SWIZZLE'], '.swizzle-operators', fs='clang', lean=True),
            simd('avx2', ['-DGLM_FORCE_SWIZZLE'], '.swizzle-operators', lean=True),
            simd('avx2', ['-DGLM_FORCE_DEFAULT_ALIGNED_GENTYPES'], '.default-aligned', fs='clang', lean=True),
            simd('sse2', ['-DGLM_FORCE_DEFAULT_ALIGNED_GENTYPES'], '.default-aligned'),
            simd('avx2', ['-DGLM_FORCE_QUAT_DATA_WXYZ'], '.wxyz', lean=True),
            simd('avx2', ['-DGLM_FORCE_SIZE_T_LENGTH'], '.size_t', fs='clang', lean=True),
            simd('avx2', ['-DGLM_FORCE_CTOR_INIT', '-DGLM_FORCE_QUAT_DATA_WXYZ', '-DGLM_FORCE_DEFAULT_ALIGNED_GENTYPES'], '.ctor-init.wxyz.default-aligned', fs='clang', lean=True),
            simd('sse2', ['-DGLM_FORCE_XYZW_ONLY', '-DGLM_FORCE_SWIZZLE'], '.xyzw-only.swizzle-functions', lean=True),
        ]
    return {
        'units': units,
        'rule': ('one monitor source built once per configuration (macros + ISA level + compiler = one build unit); in every build every '
                 'vec<L,T,Q> (L=1..4), mat<C,R,T,Q> (C,R=2..4) and qua<T,Q> over T in {bool,int8..uint64,float,double} and Q in packed '
                 '{highp,mediump,lowp} plus, in GLM_FORCE_INTRINSICS builds, aligned {highp,mediump,lowp} ("lean" secondary builds: highp '
                 'only) is instantiated and its layout facts are executed: sizeof, alignof, &v[i]-&v[0], offsets of x/y/z/w and of the '
                 'rgba/stpq aliases, &m[c], &m[c][r], value_ptr (const and non-const) addresses, then distinct tags are written through '
                 'operator[] / named members / value_ptr / raw bytes and read back through the other access paths and as a byte image '
                 '(objects live in a poisoned, guarded buffer), make_vecL(vecL), make_vecL/make_matCxR/make_matC/make_quat(ptr) round trips '
                 'for the default qualifier, length() value and type; plus every documented vec/mat/qua typedef name, 512 or 864 depending on the configuration, generated from the naming convention (core, ext, type_precision.hpp, '
                 'type_aligned.hpp) and the struct of manual section 2.10. The facts are deterministic per build; the tag values come from a '
                 'random stream (random words, all-distinct ramps, one-hot and one-cold patterns, byte ramps)'),
        'assumptions': [
            'oracle = the documented contract only: packed = exactly L (C*R) contiguous T in column-major order with the alignment of T; aligned = same element order from offset 0, sizeof >= L*sizeof(T), alignment a power of two >= alignof(T), float vec2 8/8, float vec3/vec4 16/16, matrix = C consecutive aligned columns (value_ptr index c*(sizeof(column)/sizeof(T))+r); concrete sizes of other aligned types (e.g. aligned dvec4 16- vs 32-byte aligned) are recorded as notes, not judged',
            'quaternion member order x,y,z,w; w,x,y,z with GLM_FORCE_QUAT_DATA_WXYZ (the property statement; manual section 2.21 describes the opposite default with a differently named macro)',
            'the pointer builders are fed an array holding as many T as the object occupies (sizeof(object)/sizeof(T)), copied from value_ptr(object): for default-aligned vec3/matNx3 this is more than L (C*R) elements, reads past an exactly L-element array are not judged here',
            'aligned_* qualifiers exist with gcc/clang only in GLM_FORCE_INTRINSICS builds; GLM_FORCE_ALIGNED_GENTYPES / GLM_FORCE_DEFAULT_ALIGNED_GENTYPES alone leave every type packed (judged as packed)',
            'tags are compared bitwise (float/double tags are arbitrary finite bit patterns); bool tags by value',
        ],
    }
