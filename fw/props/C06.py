from driver import Unit as U, LIBS

# ------------------------------------------------------------------ C06  pack/unpack consistency, quantisation, layout
# Two monitors (compiled in parallel):
#   C06_norm : every Unorm/Snorm format of glm/packing.hpp + glm/gtc/packing.hpp and the generic packUnorm/packSnorm templates
#   C06_misc : integer formats, Double2x32, half formats (layout/consistency/clamping only: conversions are C07's),
#              F2x11_1x10, F3x9_E1x5, RGBM
def spec(th, seed):
    units = [U('C06_norm.plain', 'mon/C06_norm.cpp', 'plain', libs=LIBS),
             U('C06_misc.plain', 'mon/C06_misc.cpp', 'plain', libs=LIBS)]
    # second compiler (compiler-specific branches), reduced workload
    units.append(U('C06_norm.clang.quick', 'mon/C06_norm.cpp', 'clang', libs=LIBS, scale=0.2, args=['--sweep-div', '16']))
    units.append(U('C06_misc.clang.quick', 'mon/C06_misc.cpp', 'clang', libs=LIBS, scale=0.2, args=['--sweep-div', '16']))
    if th:
        # second compiler / other optimisation level on the quick workload (the 2^32 sweeps stay in the g++ -O2 units)
        units.append(U('C06_norm.clang', 'mon/C06_norm.cpp', 'clang', libs=LIBS, args=['--tier', 'quick']))
        units.append(U('C06_misc.clang', 'mon/C06_misc.cpp', 'clang', libs=LIBS, args=['--tier', 'quick']))
        units.append(U('C06_misc.O0', 'mon/C06_misc.cpp', 'plainO0', libs=LIBS, args=['--tier', 'quick']))
    return {
        'units': units,
        'exhaustive': False,
        'rule': ('words are given as per-field codes and joined by the monitor\'s own layout table (component 0 = least significant bits). '
                 'Round trip: every word of every format of at most 20 bits (thorough: at most 32 bits, i.e. all 2^32 words of each 32-bit format); '
                 'wider formats: every code of every field (2^2..2^16 codes) with the other fields at 0 / all-ones / random, 32-bit fields on a boundary '
                 'lattice plus a seed-phased strided sweep, plus random words. Quantisation / clamping: for every field every code value c/max and '
                 'every rounding tie (c+0.5)/max, each +-1..2 ulp, other components drawn from a generator mixing exact codes, ties, in-range, '
                 'out-of-range (up to FLT_MAX/DBL_MAX), subnormal and lattice values; every finite float (2^32 patterns) for packUnorm1x8 and '
                 'packUnorm1x16 in both tiers and for packSnorm1x8/1x16 in the thorough tier (quick: every 61st pattern, seed-dependent phase). '
                 'Monotonicity: adjacent floats around every tie and code value, random pairs, and (thorough) every adjacent float pair of the four scalar formats. '
                 'Layout: random vectors packed whole and one component at a time. F2x11_1x10: every 11/10-bit code value +-2 ulp, midpoints, negated, '
                 'sub-minimum, above-maximum, lattice, random; F3x9_E1x5: every (mantissa, exponent) pair and midpoint in each position +-1 ulp, '
                 'values just below powers of two, random; half formats: all 2^16 codes of each field in three contexts, random and boundary-band inputs.'),
        'assumptions': [
            'oracle = documented formulas round(clamp(c,lo,1)*max) and code/max evaluated exactly (double for float inputs, __float128 for double inputs); '
            'a code is accepted when |code - x*max| <= 0.5 + 2u*x*max (rounding ties and the rounding of the float product may go either way), '
            'the decoded value when |unpack(pack(x)) - x| <= step/2 + 7u*max(|x|,|code|/max); unpack(code) must equal code/max within 6u relative',
            'only finite non-NaN inputs are judged (NaN / infinity are outside "any real x"); integer formats are fed in-range component values only',
            'canonical codes: all codes of unsigned-normalised and integer fields, all but the most negative code of signed-normalised fields, '
            'finite codes of half / 11-bit / 10-bit floats, RGB9E5 words with exponent 0 or largest mantissa >= 256',
            'F2x11_1x10: the property statement does not fix the meaning of codes with exponent field 0, so both the OpenGL denormal reading and '
            'glm\'s no-denormal reading (2^-15*(1+m/2^mb)) are accepted; inputs below 2^-14 may encode to 0, to the smallest code or to a code within one denormal step',
            'half formats: conversion accuracy is the subject of C07; here only field placement, agreement with packHalf1x16/unpackHalf1x16, '
            'one-mantissa-step accuracy and clamping of finite out-of-range inputs to the largest finite half or infinity are checked',
            'generic packUnorm/packSnorm with a 32-bit integer type and float is not monitored (a float cannot carry 32 bits; the narrowing cast overflows at 1.0f): only the double instantiations are',
            'little-endian x86-64 (the memcpy/union based formats place component 0 in the low bytes)',
        ],
    }
