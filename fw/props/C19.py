from driver import Unit as U, LIBS

# ------------------------------------------------------------------ C19 colour-space conversions
def spec(th, seed):
    units = [U('C19_color.plain', 'mon/C19_color.cpp', 'plain')]
    if th:
        units.append(U('C19_color.clang', 'mon/C19_color.cpp', 'clang', scale=0.2))
        units.append(U('C19_color.simd-avx2', 'mon/C19_color.cpp', 'plain', defs=['-mavx2', '-DGLM_FORCE_INTRINSICS'], scale=0.2))
        units.append(U('C19_color.O3', 'mon/C19_color.cpp', 'plainO3', scale=0.1))
    return {
        'units': units,
        'exhaustive': False,
        'rule': ('gtc convertLinearToSRGB/convertSRGBToLinear, default and gamma forms, float and double, vec3/vec4 in highp (every input) and mediump/lowp (one input in eight, chosen by a hash of the input) '
                 '(+ the lowp float vec3 approximation): colours whose three channels are a value and its float neighbours (0..4 ulp) around 0, 1, '
                 '0.0031308, 0.04045, their images and further centres; a 4097-point grid per channel with both neighbours, crossed with 21 gamma values '
                 '1.0..3.0; a 33^3 cross of channel values; random colours (uniform, log-uniform dark, grid, near-threshold, adjacent pairs) with random alpha bit '
                 'patterns (NaN/Inf/-0 included) and random gamma in [1,3]; for float additionally consecutive-float triples (2t,2t+1,2t+2) over [0,1] '
                 '(quick: a seed-dependent stride; thorough: every float in [0,1]). Monotonicity is judged between the channels of one colour. '
                 'gtx hsvColor/rgbColor, rgb2YCoCg/YCoCg2rgb, float rgb2YCoCgR/YCoCgR2rgb, luminosity: 33^3 cube grid with +-1 ulp perturbations, a 4097-point grid on '
                 'each channel crossed with a 5x5 grid on the others, colours generated at every hue sector boundary and mid-sector +-0..4 ulp for 8x8 (s,v) values, random '
                 'cube/dark/near-grey/grey/two-equal-channel/primary colours; hsv triples at sector boundaries +-ulps and random (s,v in [1/64,1]) for the hsv->rgb->hsv direction. '
                 'saturation: s on a 201-point grid over [0,2] x 257 grey levels plus random. integer rgb2YCoCgR/YCoCgR2rgb: all 2^24 8-bit triples for each of u8,i8,u16,i16,i32,u32,i64,u64 '
                 '(complete), a boundary lattice^3 of the 16/32/62-bit depth plus random triples (full width for 8/16-bit and unsigned types, 16/32-bit colour in signed 32/64-bit types).'),
        'assumptions': [
            'oracle = the property statement evaluated directly (monotone, fixes 0 and 1, [0,1]->[0,1], alpha bit-identical, mutual inversion, exact integer losslessness, grey preservation, documented weights); '
            'long-double models of the documented IEC 61966-2-1 curves, of the standard HSV hexcone formula and of the documented weight vectors are used only to derive rounding bounds k*u*S, '
            'the allowance for the accuracy of the transfer-curve constants (|x^(2.4*0.41666)-x| <= 5.9e-6 plus the threshold discontinuities of the published constants, 9.6e-6 in total) and to name input classes',
            'domains: colour channels in [0,1]; gamma in [1,3]; hue in [0,360), s and v in [1/64,1] for the hsv->rgb->hsv direction; saturation factor in [0,2]; signed 32/64-bit integer channels hold at most 16/32-bit colour (r-b must not overflow)',
            'f(1)=1 and weak monotonicity are judged up to the rounding of the documented formula (f(1): 8u resp. 2(4g+2)u; neighbours inside the power branch: one ulp of pow); across a curve threshold the 3e-8 discontinuity of the published sRGB constants is allowed',
            'hsvColor may return hue 360.0 only when the exact hue is within its rounding bound below 360 (h+360 rounds up; DESIGN section 11); the hue of grey colours is unconstrained; colours whose channels differ by at most 2*epsilon<T> '
            '(the absolute epsilon glm uses to detect the maximum channel) have no hue check and the rgb->hsv->rgb bound contains that epsilon',
            'luminosity is checked against the documented weights (0.33,0.59,0.11); since they sum to 1.03, luminosity does not preserve grey levels (recorded as a ratio, not judged); grey preservation is judged for saturation()',
        ],
    }
