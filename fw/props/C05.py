from driver import Unit as U, LIBS

# ------------------------------------------------------------------ C05
def spec(th, seed):
    units = [U('C05_integer.plain', 'mon/C05_integer.cpp', 'plain'),
             U('C05_integer.simd-avx2', 'mon/C05_integer.cpp', 'plain', defs=['-mavx2', '-DGLM_FORCE_INTRINSICS'], scale=0.3)]
    # second compiler (glm has `#if GLM_COMPILER & GLM_COMPILER_CLANG/GCC` branches)
    units.append(U('C05_integer.clang', 'mon/C05_integer.cpp', 'clang', scale=0.2))
    if th:
        units.append(U('C05_integer.simd-sse2', 'mon/C05_integer.cpp', 'plain', defs=['-msse2', '-DGLM_FORCE_INTRINSICS'], scale=0.2))
        units.append(U('C05_integer.Os', 'mon/C05_integer.cpp', 'plainOs', scale=0.2))
    # aliasing supplement (mon/alias.cpp): destination / out-parameter is one of the operands; oracle = the same call with a copy of that operand
    units.append(U('C05_alias', 'mon/alias.cpp', 'plain', defs=['-DALIAS_PROP=5']))
    units.append(U('C05_alias.simd-aligned', 'mon/alias.cpp', 'plain', defs=['-DALIAS_PROP=5'] + ['-DGLM_FORCE_INTRINSICS', '-DGLM_FORCE_DEFAULT_ALIGNED_GENTYPES', '-mavx2', '-mfma']))
    if th:
        units.append(U('C05_alias.clang', 'mon/alias.cpp', 'clang', defs=['-DALIAS_PROP=5']))
        units.append(U('C05_alias.simd-sse41.O0', 'mon/alias.cpp', 'plainO0', defs=['-DALIAS_PROP=5', '-DGLM_FORCE_INTRINSICS', '-DGLM_FORCE_DEFAULT_ALIGNED_GENTYPES', '-msse4.1'], scale=0.2))
    # constant-argument supplement (mon/constarg.cpp): scalar arguments as compile-time constants vs the same values read from volatiles; results must be bitwise identical
    units.append(U('C05_constarg', 'mon/constarg.cpp', 'plain', defs=['-DCONST_PROP=5']))
    if th:
        units.append(U('C05_constarg.clang', 'mon/constarg.cpp', 'clang', defs=['-DCONST_PROP=5']))
        units.append(U('C05_constarg.O3', 'mon/constarg.cpp', 'plainO3', defs=['-DCONST_PROP=5']))
        units.append(U('C05_constarg.O1', 'mon/constarg.cpp', 'plainO1', defs=['-DCONST_PROP=5']))
    return {
        'units': units,
        'rule': 'aliasing supplement (mon/alias.cpp): every compound/in-place/out-parameter form is run twice from the same state, once with the aliased operand replaced by a copy, and the final states must be bitwise identical; bitCount/findLSB/findMSB/bitfieldReverse/bitfieldExtract/bitfieldInsert for i8..u64 scalar and vec1..4: every value of 8/16-bit types crossed with every (offset,bits) with offset+bits<=width; 32/64-bit: every single bit, every run of ones and complement, boundary lattice, random (masked/shifted mixes); uaddCarry/usubBorrow/umulExtended/imulExtended scalar and vec1..4 on all pairs of the 32-bit boundary lattice plus random pairs (equal, adjacent, complementary operands forced)',
        'assumptions': ['oracle = bit-by-bit loop models written from the GLSL text quoted in glm/integer.hpp; domain: 0<=offset, 0<=bits, offset+bits<=width'],
    }
