from driver import Unit as U, LIBS

# ------------------------------------------------------------------ C05
def spec(th, seed):
    units = [U('C05_integer.plain', 'mon/C05_integer.cpp', 'plain'),
             U('C05_integer.simd-avx2', 'mon/C05_integer.cpp', 'plain', defs=['-mavx2', '-DGLM_FORCE_INTRINSICS'], scale=0.3)]
    if th:
        units.append(U('C05_integer.simd-sse2', 'mon/C05_integer.cpp', 'plain', defs=['-msse2', '-DGLM_FORCE_INTRINSICS'], scale=0.2))
        units.append(U('C05_integer.clang', 'mon/C05_integer.cpp', 'clang', scale=0.2))
    return {
        'units': units,
        'rule': 'bitCount/findLSB/findMSB/bitfieldReverse/bitfieldExtract/bitfieldInsert for i8..u64 scalar and vec1..4: every value of 8/16-bit types crossed with every (offset,bits) with offset+bits<=width; 32/64-bit: every single bit, every run of ones and complement, boundary lattice, random (masked/shifted mixes); uaddCarry/usubBorrow/umulExtended/imulExtended scalar and vec1..4 on all pairs of the 32-bit boundary lattice plus random pairs (equal, adjacent, complementary operands forced)',
        'assumptions': ['oracle = bit-by-bit loop models written from the GLSL text quoted in glm/integer.hpp; domain: 0<=offset, 0<=bits, offset+bits<=width'],
    }
