from driver import Unit as U, LIBS

SRC = 'mon/C09_transform.cpp'
LH = ['-DGLM_FORCE_LEFT_HANDED']

# ------------------------------------------------------------------ C09
def spec(th, seed):
    units = [U('C09_transform.plain', SRC, 'plain', libs=LIBS),
             # lookAt follows the configured handedness: the same monitor built with GLM_FORCE_LEFT_HANDED expects the LH transform
             U('C09_transform.lh', SRC, 'plain', defs=LH, args=['--only', 'lookAt'], libs=LIBS),
             # the depth-range macro must not influence handedness: RH_ZO and LH_ZO configurations
             U('C09_transform.rh-zo', SRC, 'plain', defs=['-DGLM_FORCE_DEPTH_ZERO_TO_ONE'], args=['--only', 'lookAt'], scale=0.5, libs=LIBS),
             U('C09_transform.lh-zo', SRC, 'plain', defs=LH + ['-DGLM_FORCE_DEPTH_ZERO_TO_ONE'], args=['--only', 'lookAt'], scale=0.5, libs=LIBS),
             # decompose writes the quaternion by index: the other storage order must give the same components (seed C09n)
             U('C09_transform.wxyz', SRC, 'plain', defs=['-DGLM_FORCE_QUAT_DATA_WXYZ'], args=['--only', 'decompose'], libs=LIBS)]
    if th:
        units.append(U('C09_transform.clang', SRC, 'clang', scale=0.15, libs=LIBS))
        units.append(U('C09_transform.lh-clang', SRC, 'clang', defs=LH, args=['--only', 'lookAt'], scale=0.15, libs=LIBS))
        units.append(U('C09_transform.O0', SRC, 'plainO0', scale=0.02, libs=LIBS))
    return {
        'units': units,
        'rule': 'per element type (float, double) random streams: base matrices M = identity / dense / affine / gaussian / sparse / small '
                'integers / zero / diagonal / per-column exponents, entries times 2^E with E = 0 or uniform in +-20 (float) / +-100 (double); '
                'parameter vectors from the same direction patterns; angles uniform over +-4 turns, +-pi, a special list (0, multiples of '
                'pi/4, pi/2 +- a few ulps up to +-8 pi, tiny, 100) and up to +-700; axes random with norms 2^+-20 (2^+-100), axis aligned, '
                'nearly axis aligned (other components 2^-30..2^-3), small integers, unit; shear factors in +-2 or 2^+-8; lookAt: eye zero or '
                'up to 2^10, center = eye + 2^[-10,12] * direction (or independent), up = world axis / random / at angle 2e-3..pi/2 to the '
                'view direction with random length; decompose: scale components with all sign patterns and magnitude in [0.5,2], 2^+-3.3 or '
                '2^+-6, rotation angle over the whole circle (40% in [2, pi] so that the trace<=0 branches with each largest diagonal are '
                'taken), translation up to 32, skew none / one / three components in +-1.5, perspective none or xyz in +-0.5 with w chosen '
                'so that M[3][3] = 1 (70%) or in [0.5,2]; axisAngle round trip: angle in [0.01,3.13] plus exactly 0 and pi; interpolate: two rigid '
                'matrices (random axis/angle, translation up to 8), delta in [0,1], 0, 1, 0.5 and [-0.5,1.5]; every sub-function of the gtx helper headers is selected round robin',
        'assumptions': ['oracle = M times the documented elementary matrix evaluated element-wise in long double (float) / __float128 (double); '
                        'tolerance = 2 x first-order rounding-error count (sin/cos within 1 ulp, normalize 4.5u, 5u per 4-term product sum) x '
                        'magnitude sum, plus denormal quanta',
                        'domain: finite inputs, |entries| <= 2^22 (2^102), axis squared norm in [2^-80,2^80] ([2^-600,2^600]), |angle| <= 1024; '
                        'lookAt: eye != center, angle(up, view) >= 1e-3 rad (bound scales with 1/sin); decompose: |scale| in [2^-7,2^7], '
                        '|det| >= 1e-3, Gram-Schmidt cancellation ratios <= 64, |M[3][3]| in [1/8,8], perspective partition exactly zero or '
                        '>= 1e-3 (decompose drops a partition below epsilon); the rebuilt matrix is compared with M/M[3][3] (decompose '
                        'normalises homogeneously); orientation/axisAngle: angles at least 0.05 / 0.01 rad away from 0 and pi',
                        'recompose<double> does not compile on this tree: double decompositions are recomposed by the reference formula; '
                        'float decompositions are judged both through glm::recompose and through the reference recomposition',
                        'gtx 2D/3D shear helpers are judged against the entry placement implied by their parameter names (shearX(m,y): '
                        'E[0][1]=y; shearX2D(m,y): E[1][0]=y; shearX3D(m,y,z): E[0][1]=y,E[0][2]=z ...); their one-line documentation is '
                        'not specific enough to fix the orientation'],
    }
