from driver import Unit as U, LIBS

F16C = ['-mf16c']

# ------------------------------------------------------------------ C07
def spec(th, seed):
    units = [U('C07_half.plain', 'mon/C07_half.cpp', 'plain', defs=F16C),
             # SIMD configuration at an ISA level that has hardware half conversion (a glm fast path there must still keep NaN codes, ties, ...)
             U('C07_half.simd-avx-f16c', 'mon/C07_half.cpp', 'plain', defs=F16C + ['-DGLM_FORCE_INTRINSICS', '-mavx2', '-mfma'], args=['--x-stride', '7'])]
    # C++20 translation unit (glm selects language-level dependent code from __cplusplus)
    units.append(U('C07_half.cxx20', 'mon/C07_half.cpp', 'plain', defs=F16C + ['-std=c++20'], args=['--x-stride', '5']))
    # a typical release build: -O2 with FMA contraction allowed (the oracle is an integer model, contraction cannot touch it)
    units.append(U('C07_half.O2-fma-contract', 'mon/C07_half.cpp', 'plainO2fma', defs=F16C, args=['--x-stride', '3']))
    if th:
        units.append(U('C07_half.Os', 'mon/C07_half.cpp', 'plainOs', defs=F16C, args=['--x-stride', '7']))
        units.append(U('C07_half.clang.cxx20', 'mon/C07_half.cpp', 'clang', defs=F16C + ['-std=c++20'], args=['--x-stride', '5']))
        units.append(U('C07_half.clang', 'mon/C07_half.cpp', 'clang', defs=F16C))
        units.append(U('C07_half.O0', 'mon/C07_half.cpp', 'plainO0', defs=F16C, args=['--x-stride', '61']))
    return {
        'units': units,
        'exhaustive': False,
        'rule': 'all 2^16 half patterns through unpackHalf1x16 and the pack(unpack()) round trip; all 2^32 float patterns through packHalf1x16 (nearest / tie / overflow / underflow / NaN / sign symmetry) and again as adjacent pairs for monotonicity; vector overloads (packHalf2x16, 4x16, packHalf<L>, unpackHalf*) on lattice tuples and random bit patterns',
        'assumptions': ['oracle = bit-level software model of IEEE-754 binary16 written for this monitor, cross-checked on every input against the CPU F16C instructions (a disagreement between the two aborts the run as a harness failure)'],
    }


