from driver import Unit as U, LIBS

SRC = 'mon/C02_matrix.cpp'
SIMD = ['-DC02_ALIGNED', '-DGLM_FORCE_INTRINSICS']


def spec(th, seed):
    units = []
    # default build: float, double, int, uint x packed highp/mediump/lowp, four parts
    for p in (1, 2, 3, 4):
        units.append(U('C02_matrix.part%d' % p, SRC, 'plain', defs=['-DPART=%d' % p], libs=LIBS))
    # aligned_highp/mediump/lowp matrices (SIMD specialisations: mul4x4<aligned>, vec4 operators, transpose/matrixCompMult/outerProduct)
    for p in (1, 2, 3, 4):
        units.append(U('C02_matrix.part%d.aligned-avx2' % p, SRC, 'plain', defs=['-DPART=%d' % p, '-mavx2', '-mfma'] + SIMD, libs=LIBS, scale=0.5))
    # AVX without AVX2 takes its own double-precision paths (convert_splat<...>::detailAVX, 2x128-bit integer halves)
    units.append(U('C02_matrix.part1.aligned-avx', SRC, 'plain', defs=['-DPART=1', '-mavx', '-mfma'] + SIMD, libs=LIBS, scale=0.3))
    # size-optimised build (code under __OPTIMIZE_SIZE__, different inlining)
    units.append(U('C02_matrix.part1.Os', SRC, 'plainOs', defs=['-DPART=1', '-DNQ=1'], libs=LIBS, scale=0.3))
    # constructors written for compilers without initializer lists (the #if !GLM_HAS_INITIALIZER_LISTS bodies)
    units.append(U('C02_matrix.part2.cxx98', SRC, 'plain', defs=['-DPART=2', '-DGLM_FORCE_CXX98', '-DNQ=1'], libs=LIBS, scale=0.2))
    if th:
        for p in (2, 3, 4):
            units.append(U('C02_matrix.part%d.aligned-avx' % p, SRC, 'plain', defs=['-DPART=%d' % p, '-mavx', '-mfma'] + SIMD, libs=LIBS, scale=0.2))
        for ts in (2, 3):   # sized integers: i8 u8 i16 u16 | i64 u64
            for p in (1, 2, 3, 4):
                units.append(U('C02_matrix.part%d.types%d' % (p, ts), SRC, 'plain', defs=['-DPART=%d' % p, '-DTYPESET=%d' % ts], libs=LIBS, scale=0.3))
        for p in (1, 2, 3, 4):
            units.append(U('C02_matrix.part%d.clang' % p, SRC, 'clang', defs=['-DPART=%d' % p], libs=LIBS, scale=0.2))
        for p in (1, 2, 4):
            units.append(U('C02_matrix.part%d.aligned-sse2' % p, SRC, 'plain', defs=['-DPART=%d' % p, '-msse2'] + SIMD, libs=LIBS, scale=0.2))
        units.append(U('C02_matrix.part1.O0', SRC, 'plainO0', defs=['-DPART=1', '-DNQ=1'], libs=LIBS, scale=0.1))
    # aliasing supplement (mon/alias.cpp): destination / out-parameter is one of the operands; oracle = the same call with a copy of that operand
    units.append(U('C02_alias', 'mon/alias.cpp', 'plain', defs=['-DALIAS_PROP=2']))
    units.append(U('C02_alias.simd-aligned', 'mon/alias.cpp', 'plain', defs=['-DALIAS_PROP=2'] + ['-DGLM_FORCE_INTRINSICS', '-DGLM_FORCE_DEFAULT_ALIGNED_GENTYPES', '-mavx2', '-mfma']))
    if th:
        units.append(U('C02_alias.clang', 'mon/alias.cpp', 'clang', defs=['-DALIAS_PROP=2']))
        units.append(U('C02_alias.simd-sse41.O0', 'mon/alias.cpp', 'plainO0', defs=['-DALIAS_PROP=2', '-DGLM_FORCE_INTRINSICS', '-DGLM_FORCE_DEFAULT_ALIGNED_GENTYPES', '-msse4.1'], scale=0.2))
    return {
        'units': units,
        'parallel_units': 4,
        'rule': 'aliasing supplement (mon/alias.cpp): every compound/in-place/out-parameter form is run twice from the same state, once with the aliased operand replaced by a copy, and the final states must be bitwise identical; every operation is evaluated for all nine shapes mat2x2..mat4x4 (27 operand-shape pairs for mat*mat, 9 for mat*vec and vec*mat, 81 source/destination pairs for the converting constructors) x qualifiers highp/mediump/lowp (aligned_* in the SIMD units) x element types float, double, int, uint (thorough: also i8,u8,i16,u16,i64,u64); per (operation, shape pair, qualifier) the inputs cycle through four streams: tag matrices of distinct signed primes in shuffled positions, transposition probes (one operand is a single +-1 at a random position, the other a tag matrix), random small integers (ranges 1,2,3,10,L), and random general values (float/double: uniform and log-uniform magnitudes, wide exponent ranges without overflow; u32/u64: full-range bit patterns judged modulo 2^n; copies: IEEE special-value lattice, random bit patterns incl. NaN/inf/-0). Parts: 1 products (mat*mat, mat*=mat, mat*vec, vec*mat), 2 shape/element-type conversions, constructors, operator[] access, 3 element-wise and compound operators, unary -/+, ++/--, ==/!=, 4 transpose, outerProduct, matrixCompMult, gtc row/column, gtx diagonalCxR, rowMajor/colMajor, matrixCross3/4',
        'assumptions': [
            'oracle = loops over plain arrays written from the textbook definitions ((A*B)[c][r] = sum_k A[k][r]*B[c][k], column-major), no glm code; integers: exact 128-bit arithmetic, judged only when every product and partial sum is representable in the element type (u32/u64 additionally modulo 2^n); float/double with integer entries |e|<=2^10 / 2^24: the exact value, compared by value (+0 == -0); other finite float/double: |got-exact| <= 2K*u*sum|a||b| + (K+1)*denorm_min with K products per element (exact reference in __float128; worst case of any evaluation order incl. FMA is K*u*sum|a||b|, so err/bound <= 0.5 for correct code); single element-wise +,-,* : the IEEE result of the builtin operator by value; division: within 4u|q| of the exact quotient; copies (conversions, transpose, constructors, access, row/column): bit-identical, any NaN equals any NaN',
            'domains: finite operands whose sums of four products cannot overflow; integer divisors non-zero and not MIN/-1; signed and 8/16-bit integer operands bounded so that nothing overflows or wraps; aligned_lowp float division (hardware reciprocal approximation by design) is only judged to 2^-10 relative',
            'not instantiable on this tree (compile errors inside glm, recorded as input class, not judged): integer vec3*mat3x3 and vec4*mat4x4 (written with glm::dot, which static_asserts on integer types); s+m and s-m exist for square shapes only (probed with SFINAE, counted as overload-absent); mat/mat and mat/vec (defined through inverse) belong to C10; matrixCross4 element [3][3] is not specified and not judged',
        ],
    }
