from driver import Unit as U, LIBS

SRC = 'mon/C04_rotation.cpp'
WXYZ = ['-DGLM_FORCE_QUAT_DATA_WXYZ']

# ------------------------------------------------------------------ C04
def spec(th, seed):
    # the same monitor is built for both quaternion memory layouts with identical workload (same seed -> same inputs)
    units = [U('C04_rotation.xyzw', SRC, 'plain', libs=LIBS),
             U('C04_rotation.wxyz', SRC, 'plain', defs=WXYZ, libs=LIBS)]
    # four-scalar constructor taking (x,y,z,w): the monitor builds quaternions through qua::wxyz, glm's own internal constructor calls must not depend on the order
    units.append(U('C04_rotation.ctor-xyzw', SRC, 'plain', defs=['-DGLM_FORCE_QUAT_DATA_XYZW'], scale=0.3, libs=LIBS))
    if th:
        units.append(U('C04_rotation.xyzw.clang', SRC, 'clang', scale=0.15, libs=LIBS))
        units.append(U('C04_rotation.wxyz.clang', SRC, 'clang', defs=WXYZ, scale=0.15, libs=LIBS))
        units.append(U('C04_rotation.wxyz.O0', SRC, 'plainO0', defs=WXYZ, scale=0.03, libs=LIBS))
        units.append(U('C04_rotation.xyzw.O3', SRC, 'plainO3', scale=0.15, libs=LIBS))
    # aliasing supplement (mon/alias.cpp): destination / out-parameter is one of the operands; oracle = the same call with a copy of that operand
    units.append(U('C04_alias', 'mon/alias.cpp', 'plain', defs=['-DALIAS_PROP=4']))
    units.append(U('C04_alias.simd-aligned', 'mon/alias.cpp', 'plain', defs=['-DALIAS_PROP=4'] + ['-DGLM_FORCE_INTRINSICS', '-DGLM_FORCE_DEFAULT_ALIGNED_GENTYPES', '-mavx2', '-mfma']))
    units.append(U('C04_alias.wxyz', 'mon/alias.cpp', 'plain', defs=['-DALIAS_PROP=4', '-DGLM_FORCE_QUAT_DATA_WXYZ']))
    if th:
        units.append(U('C04_alias.clang', 'mon/alias.cpp', 'clang', defs=['-DALIAS_PROP=4']))
        units.append(U('C04_alias.simd-sse41.O0', 'mon/alias.cpp', 'plainO0', defs=['-DALIAS_PROP=4', '-DGLM_FORCE_INTRINSICS', '-DGLM_FORCE_DEFAULT_ALIGNED_GENTYPES', '-msse4.1'], scale=0.2))
    return {
        'units': units,
        'rule': 'aliasing supplement (mon/alias.cpp): every compound/in-place/out-parameter form is run twice from the same state, once with the aliased operand replaced by a copy, and the final states must be bitwise identical; float and double, both quaternion layouts (default XYZW and GLM_FORCE_QUAT_DATA_WXYZ). Unit quaternions (normalised in long '
                'double, each component rounded once) from 16 generators: uniform on S^3; within 1e-2..1e-18 of +-1,+-i,+-j,+-k; two-, three- and '
                'four-way ties of the largest component (+- a few ulps); w~0; axis-angle with special angles (multiples of pi/12, +-10^-k) and axes '
                'near the coordinate axes; gimbal-lock neighbourhoods qz(r)qy(+-pi/2+-10^-k)qx(p); exactly representable quaternions with small-integer '
                'ratios; w~+-1. Vectors: uniform, axis-aligned, small integers, sparse, 2^-12 dynamic range, scaled by 2^E (|E|<=28 float / 198 double), '
                'along/orthogonal to the rotation axis. Second quaternion: independent, equal, conjugate or negated. Two-vector constructors: independent '
                'unit vectors, exactly and nearly (10^-1..10^-17) parallel / antiparallel. Euler builders/extractors: complete grid of multiples of pi/6 '
                '(quick) or pi/12 (thorough) in [-pi,pi]^3 for all 25 builders and 12 extractors, plus random triples with the middle angle at '
                '+-pi/2+-10^-k (Tait-Bryan) or {0,+-pi}+-10^-k (proper Euler); extractors are also fed matrices of the other eleven orders',
        'assumptions': ['oracle = defining polynomial / trigonometric formulas evaluated in long double (float) or __float128 (double) from the stored inputs; '
                        'tolerance = 2 x first-order rounding-error count x unit roundoff x magnitude sum (+ effect of |q|^2-1 of the stored quaternion)',
                        'unit quaternion / unit vector = squared norm within 4u of 1; vector magnitudes in [2^-30,2^30] (float) / [2^-200,2^200] (double); '
                        'angles |a| <= 1024 rad',
                        'condition factors: axis() and the angleAxis round trip near the identity (1/max(|xyz|,sqrt(u))), quat(eulerAngles(q)) near gimbal lock '
                        '(1/cos(yaw); not judged once the bound exceeds 1/8, except exactly representable gimbal-lock quaternions which must take the library guard), '
                        'qua(u,v) (1/cos(theta/2)) and rotation(u,v) (1/cos^2(theta/2)) near antiparallel input; within rounding of a branch threshold either '
                        'branch result is accepted; exactly antiparallel unit vectors must give a unit half-turn',
                        'quat_cast / round trips are accepted up to the global sign of the quaternion',
                        'libm sin/cos/asin/acos/atan2 assumed accurate to 1 ulp',
                        'the two layout builds are each judged against the oracle; their outputs are not compared bitwise with each other (no cross-build comparator in the driver)'],
    }
