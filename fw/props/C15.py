"""C15: configuration invariance. Same monitor, one build per configuration; offline digest comparison."""
import os, subprocess, json
from driver import Unit as U, LIBS, VERIF

SRC = 'mon/C15_config.cpp'
MACROS = ['CXX98', 'CXX03', 'CXX11', 'CXX14', 'CXX17', 'CXX20', 'CXX_UNKNOWN', 'INLINE', 'EXPLICIT_CTOR', 'CTOR_INIT', 'SIZE_T_LENGTH',
          'XYZW_ONLY', 'SWIZZLE', 'UNRESTRICTED_GENTYPE', 'QUAT_DATA_WXYZ', 'QUAT_DATA_XYZW', 'ALIGNED_GENTYPES', 'DEFAULT_ALIGNED_GENTYPES',
          'ARCH_UNKNOWN', 'COMPILER_UNKNOWN', 'PLATFORM_UNKNOWN', 'PURE']
PAIRS = [('CXX98', 'QUAT_DATA_WXYZ'), ('PURE', 'SWIZZLE'), ('CTOR_INIT', 'SIZE_T_LENGTH'), ('INLINE', 'XYZW_ONLY'), ('CXX11', 'EXPLICIT_CTOR'),
         ('ARCH_UNKNOWN', 'COMPILER_UNKNOWN'), ('CXX14', 'UNRESTRICTED_GENTYPE'), ('PLATFORM_UNKNOWN', 'CXX_UNKNOWN')]
REF = 'C15_config.default.O2'


def unit(name, fs, defs, bdir_holder):
    """two translation units per configuration: the main table and the float-vector gtc/round overloads"""
    us = []
    for part in (1, 2):
        u = U('C15_config.%s%s' % (name, '' if part == 1 else '.part2'), SRC, fs, defs=defs + ['-DC15_PART=%d' % part])
        u.cfgname = name; u.part = part; u.optional = (name != 'default.O2')
        us.append(u)
    return us


def spec(th, seed):
    units = unit('default.O2', 'plain', [], None) + unit('default.O0', 'plainO0', [], None) + unit('default.O3', 'plainO3', [], None)
    for m in MACROS:
        units.extend(unit(m, 'plain', ['-DGLM_FORCE_' + m], None))
    # the language level glm detects from the compiler (no macro): a C++20 translation unit
    units.extend(unit('std=c++20', 'plain', ['-std=c++20'], None))
    # pairs that touch the same code (quaternion member order x constructor order x default initialisation)
    for a, b in (('CTOR_INIT', 'QUAT_DATA_WXYZ'), ('QUAT_DATA_WXYZ', 'QUAT_DATA_XYZW')):
        units.extend(unit(a + '+' + b, 'plain', ['-DGLM_FORCE_' + a, '-DGLM_FORCE_' + b], None))
    if th:
        units.extend(unit('default.O1', 'plainO1', [], None))
        units.extend(unit('default.clang', 'clang', [], None))
        units.extend(unit('default.clangO0', 'clangO0', [], None))
        for a, b in PAIRS:
            units.extend(unit(a + '+' + b, 'plain', ['-DGLM_FORCE_' + a, '-DGLM_FORCE_' + b], None))
        for m in ('CXX98', 'PURE', 'QUAT_DATA_WXYZ', 'CTOR_INIT'):
            units.extend(unit(m + '.O0', 'plainO0', ['-DGLM_FORCE_' + m], None))
            units.extend(unit(m + '.O3', 'plainO3', ['-DGLM_FORCE_' + m], None))
        units.extend(unit('std-c++20', 'plain', ['-std=c++20'], None))
        units.extend(unit('mavx2', 'plain', ['-mavx2', '-mfma'], None))

    # optimisation levels can also change results by what they make visible to the library (__builtin_constant_p, constant folding of inlined code):
    # the constant-argument supplement (literal vs. volatile-sourced scalar arguments inside one build) at the optimising levels
    for nm, fs in (('O2', 'plain'),) + ((('O3', 'plainO3'), ('O1', 'plainO1'), ('clang', 'clang')) if th else ()):
        cu = U('C15_constarg.' + nm, 'mon/constarg.cpp', fs, defs=['-DCONST_PROP=11']); cu.plainmon = True; cu.part = 0; cu.cfgname = 'constarg'; units.append(cu)

    def pre(bdir, repo, us):
        for u in us:
            if getattr(u, 'plainmon', False): continue
            u.args = [a for a in u.args if not a.startswith('--x-digest')] + ['--x-digest', os.path.join(bdir, u.name + '.digest')]
            # drop a stale pair value
            if '--x-digest' in u.args:
                i = u.args.index('--x-digest'); u.args = u.args[:i] + ['--x-digest', os.path.join(bdir, u.name + '.digest')]

    def post(bdir, us, tier, seed):
        viols, fails = [], []
        byname = {u.name: u for u in us}

        def load(u):
            p = os.path.join(bdir, u.name + '.digest'); d = {}
            if not os.path.exists(p): return None
            for line in open(p):
                op, ch, h = line.split(); d[(op, int(ch))] = h
            return d
        ncmp = 0
        for u in us:
            if getattr(u, 'plainmon', False): continue   # ordinary monitors (own verdicts), not digest builds
            ref = byname.get(REF + ('' if u.part == 1 else '.part2'))
            if u is ref: continue
            if getattr(u, 'skipped', None):
                # compiles in the default configuration but not in this one: the configuration removes results altogether
                viols.append({'op': 'translation-unit-part%d' % u.part, 'class': u.cfgname + ':does-not-compile(default-build-does)', 'count': 1, 'unit': u,
                              'witnesses': [{'in_hex': '', 'in': 'compile ' + ' '.join(u.describe()['flags']), 'got': 'compile error (see build/C15/%s.compile.log)' % u.name, 'want': 'same results as the default build'}]})
                continue
            rd = load(ref) if ref else None
            if rd is None:
                fails.append('reference build produced no digest file'); continue
            d = load(u)
            if d is None:
                fails.append('no digest file from ' + u.name); continue
            if set(d) != set(rd):
                fails.append('digest key sets differ for ' + u.name); continue
            ncmp += len(d)
            bad = {}
            for k in sorted(d):
                if d[k] != rd[k]: bad.setdefault(k[0], []).append(k[1])
            for op, chunks in bad.items():
                ch = chunks[0]
                w = locate(ref, u, op, ch, tier, seed)
                cls = u.cfgname + ':result-bits-differ-from-default-build'
                viols.append({'op': op, 'class': cls, 'count': len(chunks), 'unit': u,
                              'witnesses': [{'in_hex': w.get('in_hex', ''), 'in': w.get('in', ''), 'got': w.get('got', ''), 'want': w.get('want', ''),
                                             'replay': {'kind': 'C15', 'op': op, 'chunk': ch, 'cfg': u.describe(), 'ref': ref.describe(), 'tier': tier}}]})
        post.compared = ncmp
        return viols, fails

    return {
        'units': units,
        'parallel_units': 8,
        'pre': pre,
        'post': post,
        'rule': 'one table of 21 operation groups (rounding/classification/fmin/exp-log/trig/hyperbolic/fma-mix/ULP/relational scalar functions with pre-C++11 fallback bodies, integer and bitfield functions, vector operators/common/geometric, matrix algebra/inverse/conversions/value_ptr, transforms and projections, quaternion algebra/casts/slerp, packing and colour, constructors of every shape) evaluated in every build on an identical input stream that is a pure function of (seed, operation, record index): special-value lattice, random bit patterns, magnitudes 2^-20..2^20, small halves (ties), near-1 values, integer lattices; each build writes a 64-bit digest per (operation, 256-record chunk) of the result bits (NaNs canonicalised, quaternions by component name, length() widened); the driver compares every build with the default -O2 build and decodes the first differing record of a differing chunk by re-running both builds in dump mode',
        'assumptions': [
            'bit-identity is demanded (the statement says bit-identical); any NaN equals any NaN; fmin/fmax results are compared as values (sign of zero of fmin(+0,-0) is unspecified by C)',
            'configuration-dependent by documentation and therefore not in the table: raw memory order of quaternions (make_quat from a raw array), handedness/depth-range unsuffixed builders, default precision, SIMD/aligned types (C03/C16)',
            'aligned types without intrinsics cannot be instantiated with gcc/clang on this tree; GLM_FORCE_ALIGNED_GENTYPES / DEFAULT_ALIGNED_GENTYPES are built as macros on packed types',
        ],
    }


def run_dump(udesc, bdir, op, ch, tier, seed, repo):
    from driver import compile_unit, FLAGSETS
    fs = None
    for k, (cxx, fl) in FLAGSETS.items():
        if cxx == udesc['compiler'] and udesc['flags'][:len(fl)] == fl: fs = k
    u = U(udesc['unit'], udesc['src'], fs or 'plain', defs=udesc['flags'][len(FLAGSETS[fs or 'plain'][1]):])
    exe = os.path.join(bdir, u.name)
    if not os.path.exists(exe):
        _, rc, out, cmd = compile_unit(u, bdir)
        if rc: return None
    p = subprocess.run([exe, '--tier', tier, '--seed', str(seed), '--x-dump', '%s:%d' % (op, ch), '--out', os.devnull], stdout=subprocess.PIPE, stderr=subprocess.DEVNULL, text=True)
    recs = {}
    for line in p.stdout.splitlines():
        if line.startswith('REC '):
            parts = line.split(); recs[int(parts[1])] = (parts[2][3:], ' '.join(parts[3:])[4:].split())
    return recs


def locate(ref, u, op, ch, tier, seed):
    bdir = os.path.dirname(u.exe)
    a = run_dump(ref.describe(), bdir, op, ch, tier, seed, None); b = run_dump(u.describe(), bdir, op, ch, tier, seed, None)
    if not a or not b: return {}
    for r in sorted(a):
        if a[r][1] != b.get(r, (None, None))[1]:
            wa, wb = a[r][1], b[r][1]
            idx = next((i for i in range(min(len(wa), len(wb))) if wa[i] != wb[i]), min(len(wa), len(wb)))
            return {'in_hex': a[r][0], 'in': 'record %d of chunk %d' % (r, ch), 'where': 'output-word-%d' % idx,
                    'got': 'word %d = %s (all words: %s)' % (idx, wb[idx] if idx < len(wb) else '-', ' '.join(wb[max(0, idx - 2):idx + 3])),
                    'want': 'word %d = %s (default build)' % (idx, wa[idx] if idx < len(wa) else '-')}
    return {}


def custom_replay(rec, repo):
    import shutil
    w = rec['witnesses'][0]['replay']
    bdir = os.path.join(VERIF, 'build', 'C15.replay'); shutil.rmtree(bdir, ignore_errors=True); os.makedirs(bdir)
    a = run_dump(w['ref'], bdir, w['op'], w['chunk'], w.get('tier', 'quick'), rec.get('seed', 1), repo)
    b = run_dump(w['cfg'], bdir, w['op'], w['chunk'], w.get('tier', 'quick'), rec.get('seed', 1), repo)
    shutil.rmtree(bdir, ignore_errors=True)
    if a is None or b is None:
        print('replay: build failed'); return 2
    diff = [r for r in sorted(a) if a[r][1] != b.get(r, (None, None))[1]]
    if diff:
        r = diff[0]; print('STILL-FAILS op=%s chunk=%d record=%d\n default: %s\n config : %s' % (w['op'], w['chunk'], r, ' '.join(a[r][1]), ' '.join(b[r][1])))
        return 1
    print('replay: builds agree on this chunk'); return 0
