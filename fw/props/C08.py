import os, subprocess
from driver import Unit as U, LIBS, FLAGSETS, COMMON

SRC = 'mon/C08_projection.cpp'
CONFIGS = [('RH_NO', []),
           ('LH_NO', ['-DGLM_FORCE_LEFT_HANDED']),
           ('RH_ZO', ['-DGLM_FORCE_DEPTH_ZERO_TO_ONE']),
           ('LH_ZO', ['-DGLM_FORCE_LEFT_HANDED', '-DGLM_FORCE_DEPTH_ZERO_TO_ONE'])]

PROBE = r'''
#include <glm/glm.hpp>
#include <glm/ext/matrix_clip_space.hpp>
#include <cstdio>
int main(int argc, char**){
	float a = (float)argc; double b = (double)argc;
	glm::mat4 m1 = glm::infinitePerspectiveLH(a, a, a), m2 = glm::infinitePerspectiveRH(a, a, a);
	glm::dmat4 m3 = glm::infinitePerspectiveLH(b, b, b), m4 = glm::infinitePerspectiveRH(b, b, b);
	printf("%g %g %g %g\n", (double)m1[0][0], (double)m2[0][0], m3[0][0], m4[0][0]);
	return 0;
}
'''


def pre(bdir, repo, units):
    """Link probe: matrix_clip_space.hpp declares infinitePerspectiveLH / infinitePerspectiveRH.  Whether they can be linked is a
    fact about the tree that a monitor cannot observe from inside (calling an undefined template is a link error), so the spec
    determines it here and tells every unit with -DC08_INFLHRH=1/0: 1 -> the monitor calls them and demands bitwise equality
    with the _NO/_ZO variant selected by the macros; 0 -> the monitor reports the missing definitions as a violation."""
    src = os.path.join(bdir, 'c08_probe.cpp'); exe = os.path.join(bdir, 'c08_probe')
    open(src, 'w').write(PROBE)
    p = subprocess.run(['g++', '-std=c++17', '-O0', '-isystem', repo, src, '-o', exe], stdout=subprocess.PIPE, stderr=subprocess.STDOUT, text=True)
    links = 1 if p.returncode == 0 else 0
    if not links:
        open(os.path.join(bdir, 'c08_probe.log'), 'w').write(p.stdout)
        if 'undefined reference' not in p.stdout:      # anything but a missing definition is a harness problem: do not judge
            links = None
    for u in units:
        u.defs = [d for d in u.defs if not d.startswith('-DC08_INFLHRH')]
        if links is not None:
            u.defs.append('-DC08_INFLHRH=%d' % links)


# ------------------------------------------------------------------ C08
def spec(th, seed):
    units = []
    for name, defs in CONFIGS:
        main = name == 'RH_NO'
        units.append(U('C08_projection.' + name, SRC, 'plain', defs=list(defs), scale=(1.0 if main else (0.3 if th else 0.5)), libs=LIBS))
    units.append(U('C08_projection.RH_ZO.clang', SRC, 'clang', defs=list(CONFIGS[2][1]), scale=0.2, libs=LIBS))
    units.append(U('C08_projection.LH_NO.clang', SRC, 'clang', defs=list(CONFIGS[1][1]), scale=0.2, libs=LIBS))
    if th:
        units.append(U('C08_projection.RH_NO.Os', SRC, 'plainOs', defs=[], scale=0.1, libs=LIBS))
        units.append(U('C08_projection.LH_ZO.clang', SRC, 'clang', defs=list(CONFIGS[3][1]), scale=0.1, libs=LIBS))
        units.append(U('C08_projection.RH_NO.O0', SRC, 'plainO0', defs=[], scale=0.02, libs=LIBS))
    return {
        'units': units, 'pre': pre,
        'rule': 'per element type (float, double): view volumes left<right, bottom<top with magnitude 2^-12..2^12 (float) / 2^-60..2^60 (double), '
                'axis-symmetric, containing 0, off-centre with width >= 1e-3 |centre|, and screen-like integer extents; 0<near<far with '
                'far/near-1 log-uniform in [1e-3, 1e4] (float) / [1e-3, 1e8] (double) and small integer ratios; fovy uniform in (0.01, 3.13) plus '
                'common angles and both ends; aspect 2^-4..2^4 and common ratios; perspectiveFov width/height integer or scaled floats; every set is '
                'fed to all four suffixed variants (8 view-volume corners each; infinite variants: 4 near corners + 4 points at infinity), to the '
                '2D ortho, to tweakedInfinitePerspective (both overloads) and to the five dispatching functions of its family; project/unProject: '
                'projection from a random builder (all families, all variants, or identity) with moderate parameters, model = identity / translation / '
                'rigid / rigid with uniform scale, point inside or up to 20% outside the view volume, viewport integer (vec4 and ivec4 overloads) or '
                'float with negative origins; clip-cube corners with identity matrices; pickMatrix with integer and fractional pick regions. The '
                'same monitor is built with no macro, GLM_FORCE_LEFT_HANDED, GLM_FORCE_DEPTH_ZERO_TO_ONE and both',
        'assumptions': ['oracle = corners of the view volume described by the arguments, pushed through the returned matrix in long double (float) / '
                        '__float128 (double) and divided by w; tolerance 2 x E x u x sum|M_ij v_j| / w with E = number of roundings of the worst entry of '
                        'the documented closed form (3 ortho/frustum, 5 perspective, 8 perspectiveFov, 7 infinitePerspective; libm tan/sin/cos taken as 1 ulp)',
                        'dispatch is judged bitwise against the variant selected by the user macros as seen by the monitor source (not by glm/detail/setup.hpp)',
                        'project/unProject: first-order error model of two mat*vec products, perspective divide, cofactor inverse (permanent based '
                        'magnitude sums) with safety factor 2; inputs whose w or determinant is within 16x of its own error bound are skipped',
                        'domain: finite arguments with magnitude in [2^-24, 2^24] (float) / [2^-200, 2^200] (double), fovy in [2^-7, pi-2^-7], '
                        'aspect in [2^-8, 2^8], tweaked ep in [0, 1/16]; project/unProject entries and coordinates in [2^-18, 2^18] / [2^-100, 2^100]; '
                        'inputs outside are counted as skipped and never judged',
                        'tweakedInfinitePerspective is not named by the statement; it is judged with near -> -1 and infinity -> 1-ep (its definition)',
                        'whether the declared infinitePerspectiveLH/RH link is established by a compile+link probe in the spec (pre hook) and handed to the monitor as -DC08_INFLHRH'],
    }
