from driver import Unit as U, LIBS


def spec(th, seed):
    units = []
    for p in range(1, 8):
        units.append(U('C01_vec.part%d' % p, 'mon/C01_vec.cpp', 'plain', defs=['-DPART=%d' % p]))
    units.append(U('C01_vec.part3.clang', 'mon/C01_vec.cpp', 'clang', defs=['-DPART=3'], scale=0.3))
    # gtx/component_wise (anchored by C01): component-wise conversions against the vec1 call, reductions against the fold of the scalar operation
    units.append(U('C01_compwise', 'mon/C01_compwise.cpp', 'plain'))
    if th:
        units.append(U('C01_compwise.clang', 'mon/C01_compwise.cpp', 'clang'))
        for p in (2, 4, 5):
            units.append(U('C01_vec.part%d.clang' % p, 'mon/C01_vec.cpp', 'clang', defs=['-DPART=%d' % p], scale=0.3))
    # aliasing supplement (mon/alias.cpp): destination / out-parameter is one of the operands; oracle = the same call with a copy of that operand
    units.append(U('C01_alias', 'mon/alias.cpp', 'plain', defs=['-DALIAS_PROP=1']))
    units.append(U('C01_alias.simd-aligned', 'mon/alias.cpp', 'plain', defs=['-DALIAS_PROP=1'] + ['-DGLM_FORCE_INTRINSICS', '-DGLM_FORCE_DEFAULT_ALIGNED_GENTYPES', '-mavx2', '-mfma']))
    if th:
        units.append(U('C01_alias.clang', 'mon/alias.cpp', 'clang', defs=['-DALIAS_PROP=1']))
        units.append(U('C01_alias.simd-sse41.O0', 'mon/alias.cpp', 'plainO0', defs=['-DALIAS_PROP=1', '-DGLM_FORCE_INTRINSICS', '-DGLM_FORCE_DEFAULT_ALIGNED_GENTYPES', '-msse4.1'], scale=0.2))
    # constant-argument supplement (mon/constarg.cpp): scalar arguments as compile-time constants vs the same values read from volatiles; results must be bitwise identical
    units.append(U('C01_constarg', 'mon/constarg.cpp', 'plain', defs=['-DCONST_PROP=11']))
    if th:
        units.append(U('C01_constarg.clang', 'mon/constarg.cpp', 'clang', defs=['-DCONST_PROP=11']))
        units.append(U('C01_constarg.O3', 'mon/constarg.cpp', 'plainO3', defs=['-DCONST_PROP=11']))
        units.append(U('C01_constarg.O1', 'mon/constarg.cpp', 'plainO1', defs=['-DCONST_PROP=11']))
    return {
        'units': units,
        'parallel_units': 4,
        'rule': 'aliasing supplement (mon/alias.cpp): every compound/in-place/out-parameter form is run twice from the same state, once with the aliased operand replaced by a copy, and the final states must be bitwise identical; for every catalogued function/operator and every vector length 1-4 (x qualifiers highp/mediump/lowp for float, subsets for other types) the vector overload is evaluated on 4-component tuples taken from the special-value lattice (all rotations against partners) and from random streams (bit patterns, log-uniform magnitudes, small halves/ties, equal-operand forcing) and every component is compared with the scalar overload of the same glm function (builtin operator for operators/relationals); scalar and vec1 arguments are additionally compared with the explicitly broadcast vector. Parts: 1 unary float functions, 2 n-ary float functions, 3 integer/relational functions, 4 float/double operators, 5 int/uint operators, 6 sized-integer operators, 7 matrix abs/mix/equal; plus mon/C01_compwise.cpp: gtx compNormalize/compScale per component against the vec1 call (all 8/16-bit values, lattice+random 32-bit) and compAdd/compMul/compMin/compMax/fcompMin/fcompMax against the fold of the scalar operation',
        'assumptions': [
            'oracle = the scalar overload of the same glm function (the statement itself relates the two overloads); EXACT (bitwise, NaN==NaN) except: mix/smoothstep/mod/fma within k*u*S of each other (k<=16), fmin/fmax/fclamp may return either zero for (+0,-0), lowp float inversesqrt within 2^-8 relative of 1/sqrt(x)',
            'domains: no NaN for min/max/clamp/step/sign (GLSL undefined), quiet NaNs only elsewhere, divisor != 0 and not MIN/-1, shift counts < width, signed 32/64-bit operands small enough not to overflow, edge0<edge1 for smoothstep, min<=max for clamp, |x|<2^31 for roundEven/iround/uround, fma operands bounded so that a*b cannot overflow',
            'not instantiable on this tree (compile errors inside glm, recorded, not judged): vec3 +=/-=/<<= vec1 and vec4 %= vec1 and the binary operators built on them; gtx/extended_min_max and ext/vector_common 3/4-argument min/max are ambiguous when both are included, only the ext versions are monitored (the gtx definitions cannot be called: reach report, tools/reach.py)',
        ],
    }
