from driver import Unit as U, LIBS

# ------------------------------------------------------------------ C11
# SSE2-only SIMD build (below SSE4.1 glm uses its hand-written glm_vec4_floor/ceil/round/... fallbacks) and an AVX2 build
SIMD_SSE2 = ['-msse2', '-mno-sse3', '-mno-ssse3', '-mno-sse4.1', '-mno-sse4.2', '-mno-avx', '-DGLM_FORCE_INTRINSICS', '-DGLM_FORCE_DEFAULT_ALIGNED_GENTYPES']
SIMD_AVX2 = ['-mavx2', '-DGLM_FORCE_INTRINSICS', '-DGLM_FORCE_DEFAULT_ALIGNED_GENTYPES']


def spec(th, seed):
    units = [U('C11_common.plain', 'mon/C11_common.cpp', 'plain'),
             U('C11_constants.plain', 'mon/C11_constants.cpp', 'plain', libs=LIBS),
             U('C11_vec4.plain', 'mon/C11_vec4.cpp', 'plain'),
             U('C11_vec4.simd-sse2', 'mon/C11_vec4.cpp', 'plain', defs=SIMD_SSE2),
             U('C11_vec4.simd-avx2', 'mon/C11_vec4.cpp', 'plain', defs=SIMD_AVX2)]
    if th:
        units.append(U('C11_common.clang', 'mon/C11_common.cpp', 'clang', scale=0.2, args=['--x-stride', '17']))
        units.append(U('C11_constants.clang', 'mon/C11_constants.cpp', 'clang', libs=LIBS))
        units.append(U('C11_common.O0', 'mon/C11_common.cpp', 'plainO0', scale=0.05, args=['--x-stride', '61']))
        units.append(U('C11_vec4.clang-sse2', 'mon/C11_vec4.cpp', 'clang', defs=SIMD_SSE2, scale=0.3))
    # constant-argument supplement (mon/constarg.cpp): scalar arguments as compile-time constants vs the same values read from volatiles; results must be bitwise identical
    units.append(U('C11_constarg', 'mon/constarg.cpp', 'plain', defs=['-DCONST_PROP=11']))
    if th:
        units.append(U('C11_constarg.clang', 'mon/constarg.cpp', 'clang', defs=['-DCONST_PROP=11']))
        units.append(U('C11_constarg.O3', 'mon/constarg.cpp', 'plainO3', defs=['-DCONST_PROP=11']))
        units.append(U('C11_constarg.O1', 'mon/constarg.cpp', 'plainO1', defs=['-DCONST_PROP=11']))
    return {
        'units': units,
        'exhaustive': False,
        'rule': ('scalar float: ALL 2^32 bit patterns through roundEven, fract, sign, mirrorRepeat, iround, uround (the last two on their documented '
                 'domain 0<=x<=INT_MAX/UINT_MAX) in both tiers; round, trunc, floor, ceil, abs, isnan/isinf/isfinite/isdenormal, modf, frexp(+ldexp round trip), '
                 'the four bit casts and the texcoord clamp/repeat/mirrorClamp see every 16th pattern (phase from the seed) plus the special-value lattice in the '
                 'quick tier and all 2^32 patterns in the thorough tier. scalar double: the double lattice with +-1,2 ulp neighbours, every 2^k and 2^k+-0.5/1/1.5, '
                 'plus 10^6 | 10^8 structured random values (all bit patterns, log-uniform magnitudes, ties k+0.5 and integers with +-1 ulp neighbours). '
                 'n-ary (min/max 2-4 operands, clamp, step, smoothstep, mix (float and bool), mod, gtx fmod, fmin/fmax 2-4 operands, fclamp, ldexp): lattice^2 and '
                 'lattice^3 completely, a reduced lattice^4, lattice x exponent list for ldexp, plus 10^6 | 3*10^7 random tuples per type (equal / adjacent / '
                 'ordered operands and x = k*y +- ulps for mod forced). constants: all 31 constant functions of ext/scalar_constants and gtc/constants for float and '
                 'double. vec4 overloads (floor, ceil, trunc, round, roundEven, fract, mod, abs, sign, min, max, clamp, step, smoothstep, mix) in the pure build and in '
                 'GLM_FORCE_INTRINSICS builds at SSE2 and AVX2 level with |x| <= 2^22: lattice lanes + random, a different value in every lane.'),
        'assumptions': [
            'oracles: bit-level models of binary32/binary64 written for the monitor (trunc/floor/ceil/round/roundEven, classification, frexp); defining case analyses '
            '(sign, step, min, max, clamp, fmin, fmax, fclamp); single IEEE operations applied to the bit-level references (fract = x - floor(x), modf); the documented '
            'formula in long double with a derived forward error bound k*u*S (mix k=8 S=|x(1-a)|+|ya|; smoothstep 32*u*ref; mod 6*u*max(|x|,|y*n|), accepting every '
            'floor branch n that the rounding error of x/y allows); long-double exact product for ldexp; fmodl for gtx fmod; MPFR at 256 bits (cross-checked at 320 bits) '
            'rounded to nearest for the constants',
            'values are compared as values: +0 and -0 are the same result (sign-of-zero differences are counted in the input-class histogram, not judged); round() may '
            'resolve ties in either direction (GLSL leaves it to the implementation), roundEven() must pick the even neighbour',
            'NaN arguments are judged only for isnan/isinf/isfinite/isdenormal, the bit casts, mix(x,y,bool) and fmin/fmax/fclamp; for fmin/fmax/fclamp only quiet NaNs '
            '(a signaling NaN makes the C library fmin/fmax return NaN by IEEE 754-2008 rules; GLSL has no signaling NaNs). +-inf is judged where the definition is defined '
            'on it (rounding family, sign, abs, min/max/clamp/step, classification) and not for fract/mod/modf/frexp/ldexp/smoothstep/mix/texcoord helpers',
            'domains honoured: iround/uround only for 0 <= x with the nearest integer representable; clamp/fclamp value only for minVal <= maxVal; smoothstep only for '
            'finite edge0 < edge1 without overflow of the differences; mod/fmod only for finite x and finite non-zero y; ldexp only when the product does not overflow; '
            'texcoord helpers only for finite input; mirrorClamp is judged for the range [0,1] only, clamp/repeat/mirrorRepeat also against their OpenGL wrap-mode value',
        ],
    }
