from driver import Unit as U, LIBS

ULP = 'mon/C14_ulp.cpp'
REL = 'mon/C14_relational.cpp'
# GLM's pre-C++11 language configuration selects the C library nextafter/nextafterf branch of nextFloat/prevFloat
# (glm/ext/scalar_ulp.inl, glm/gtc/ulp.inl "#else" branches) instead of std::nextafter.
CXX98 = ['-DGLM_FORCE_CXX98']
# aligned (SSE/AVX register backed) vec4/mat4 types as the default: vector/matrix relational functions go through the SIMD paths
SIMD = ['-mavx2', '-DGLM_FORCE_INTRINSICS', '-DGLM_FORCE_DEFAULT_ALIGNED_GENTYPES']


# ------------------------------------------------------------------ C14
def spec(th, seed):
    units = [U('C14_ulp.plain', ULP, 'plain'),
             U('C14_relational.plain', REL, 'plain'),
             U('C14_ulp.cxx98', ULP, 'plain', defs=CXX98, scale=0.2, args=['--x-stride', '5' if th else '29']),
             U('C14_relational.simd-avx2', REL, 'plain', defs=SIMD, scale=0.3),
             # n-step overloads against n applications of glm's own single step (also right at +-max and around zero)
             U('C14_nstep.plain', 'mon/C14_nstep.cpp', 'plain'),
             U('C14_nstep.cxx98', 'mon/C14_nstep.cpp', 'plain', defs=CXX98, scale=0.3)]
    if th:
        units.append(U('C14_ulp.clang', ULP, 'clang', scale=0.2, args=['--x-stride', '7']))
        units.append(U('C14_relational.clang', REL, 'clang', scale=0.3))
        units.append(U('C14_ulp.O0', ULP, 'plainO0', scale=0.1, args=['--x-stride', '61']))
        units.append(U('C14_relational.cxx98', REL, 'plain', defs=CXX98, scale=0.1))
    return {
        'units': units,
        'rule': ('nextFloat/prevFloat (glm/ext) on every finite float bit pattern (complete enumeration, both tiers); the gtc spellings '
                 'next_float/prev_float and floatDistance(x,nextFloat(x,n)) (n=0..3) on every float in the thorough tier and on every 15th/5th '
                 'pattern in the quick tier. Doubles (and floats again for the n-step, vector and distance forms): every binade boundary '
                 '+-3 steps for both signs, subnormal powers of two, +-0..+-70 denorm_min crossed with every n in 0..141, +-max and 3 steps '
                 'inside, the shared special-value lattice, plus random values (uniform bit patterns, log-uniform magnitudes, neighbours of '
                 'special points, values around zero) with n in 0..64 (sometimes up to 300); n-step results beyond +-max are not generated. '
                 'ULP comparisons (scalar, vec1..4 with int and ivec maxULPs, all nine matrix shapes): every special point paired with '
                 'the values 0,1,2,3,63,64,65 steps above/below it and maxULPs in {0,1,2,d-1,d,d+1,64}; adjacent binade boundaries, '
                 'boundary vs mid-binade, vs 1, vs max and vs its negation; double pairs at distances k*2^31+-2; random pairs at ULP '
                 'distance 0..66, straddling zero, mirror pairs, distances 2^k+-2, unrelated pairs, maxULPs drawn around the true '
                 'distance, its low 31/32 bits, 0,1,2,64 and INT_MAX. Epsilon comparisons (equal/notEqual/epsilonEqual/epsilonNotEqual; '
                 'scalar, vec1..4 with scalar and vector epsilon, quaternion, matrices): special points against neighbours with epsilon '
                 'at, one step below and one step above |fl(x-y)|, 0, machine epsilon, max, denorm_min; random pairs (close, unrelated '
                 'magnitudes, decimal grid, small integers) with epsilon drawn around |fl(x-y)|.'),
        'assumptions': [
            'oracle = integer arithmetic on the monotone index of the IEEE order (sign-magnitude bit pattern -> signed integer, +0 and -0 both 0), 64/128-bit; no glm code',
            'stepping: finite x only; a result that is zero is accepted with either sign; nextFloat(+max)/prevFloat(-max) accept +-inf or x (no finite value beyond); n >= 0; "n-step equals n single steps" is value equality (same position in the IEEE order, +0 == -0)',
            'ULP comparisons: finite x,y, 0 <= maxULPs <= INT_MAX; notEqual(x,y,ULPs) is judged as the negation of the stated equal() relation',
            'epsilon comparisons: finite x,y, finite epsilon >= +0; |x-y| <= epsilon is evaluated with the rounded difference fl(x-y) and, when |fl(x-y)| == epsilon, with the exact difference recovered by TwoSum; when the two readings differ either answer is accepted',
            'floatDistance is only judged in the stated form floatDistance(x, nextFloat(x, n)) with a finite result of nextFloat',
        ],
    }
