#!/usr/bin/env python3
"""print candidate known-finding lines for the new violations of the last run of a property"""
import json,sys
ev=json.load(open('/verif/evidence/%s.json'%sys.argv[1]))
for v in ev['coverage']['new_violations']:
    w=v.get('witness') or {}
    print('known: property=%s op=%s class=%s -- e.g. in=(%s) got=%s want=%s'%(sys.argv[1],v['op'],v['class'],w.get('in',''),w.get('got',''),w.get('want','')))
