#!/usr/bin/env python3
"""Reach report: which glm function definitions do the monitors of one property actually execute?

usage: tools/reach.py <ID> [--scale S] [--sweep-div N] [--jobs J] [--tier quick|thorough]

Builds every distinct (monitor source, configuration) unit of the property's quick spec with clang source-based coverage
(-fprofile-instr-generate -fcoverage-mapping, -O0, glm included with -I so that its headers are instrumented), runs each at a
reduced scale, merges the profiles and writes /verif/reach/<ID>.json + .txt: per glm file anchored by the property (and every
other glm file in which a line was executed) the function definitions (lines carrying GLM_FUNC_QUALIFIER) that were executed,
instantiated-but-never-executed, or never instantiated by any unit.  This is evidence about reach and a blind-spot finder;
it decides nothing (no exit status other than 0/2) and is not part of any check.
"""
import os, sys, json, re, subprocess, shutil, time
from concurrent.futures import ThreadPoolExecutor
VERIF = os.path.dirname(os.path.dirname(os.path.abspath(__file__)))
sys.path.insert(0, os.path.join(VERIF, 'fw'))
import driver, specs  # noqa
REPO = driver.REPO


def main(argv):
    prop = argv[1]
    def opt(name, dflt):
        return argv[argv.index(name) + 1] if name in argv else dflt
    scale = opt('--scale', '0.02'); sdiv = opt('--sweep-div', '2048'); jobs = int(opt('--jobs', '8')); tier = opt('--tier', 'quick')
    spec = specs.spec(prop, tier, 1)
    bdir = os.path.join(VERIF, 'build', prop + '.reach')
    shutil.rmtree(bdir, ignore_errors=True); os.makedirs(bdir)
    units = []
    seen = set()
    for u in spec['units']:
        key = (u.src, tuple(sorted(d for d in u.defs if not d.startswith('-I'))))
        if key in seen: continue
        seen.add(key); units.append(u)
    if 'pre' in spec:
        spec['pre'](bdir, REPO, units)
    common = [c for c in driver.COMMON if not c.startswith('-W')]
    def build_run(u):
        exe = os.path.join(bdir, u.name + '.cov')
        cmd = ['clang++-14'] + common + ['-w', '-O0', '-fprofile-instr-generate', '-fcoverage-mapping'] + u.defs + ['-I', REPO, os.path.join(VERIF, u.src), '-o', exe] + u.libs
        p = subprocess.run(cmd, stdout=subprocess.PIPE, stderr=subprocess.STDOUT, text=True)
        if p.returncode != 0:
            return u.name, None, 'compile failed: ' + p.stdout[-300:]
        env = dict(os.environ); prof = os.path.join(bdir, u.name + '.profraw'); env['LLVM_PROFILE_FILE'] = prof
        args = [a for a in u.args]
        run = [exe, '--out', os.path.join(bdir, u.name + '.json'), '--tier', 'quick', '--seed', '1', '--scale', scale, '--threads', '4'] + args + ['--sweep-div', sdiv]
        try:
            r = subprocess.run(run, stdout=subprocess.PIPE, stderr=subprocess.STDOUT, text=True, env=env, timeout=1500)
        except subprocess.TimeoutExpired:
            return u.name, None, 'timeout'
        if not os.path.exists(prof):
            return u.name, None, 'no profile (rc=%s) %s' % (r.returncode, r.stdout[-200:])
        return u.name, (exe, prof), 'rc=%s' % r.returncode
    t0 = time.time()
    with ThreadPoolExecutor(max_workers=jobs) as ex:
        res = list(ex.map(build_run, units))
    ok = [(n, x) for n, x, m in res if x]
    notes = {n: m for n, x, m in res}
    if not ok:
        print('reach: no unit produced a profile', notes); return 2
    merged = os.path.join(bdir, 'merged.profdata')
    subprocess.run(['llvm-profdata-14', 'merge', '-sparse', '-o', merged] + [x[1] for n, x in ok], check=True)
    objs = []
    for i, (n, x) in enumerate(ok):
        objs += ([x[0]] if i == 0 else ['-object', x[0]])
    lcov = subprocess.run(['llvm-cov-14', 'export', '-format=lcov', '-instr-profile', merged] + objs + [os.path.join(REPO, 'glm')],
                          stdout=subprocess.PIPE, stderr=subprocess.PIPE, text=True)
    cov = {}; cur = None
    for line in lcov.stdout.splitlines():
        if line.startswith('SF:'):
            cur = cov.setdefault(os.path.relpath(line[3:], REPO), {})
        elif line.startswith('DA:') and cur is not None:
            ln, cnt = line[3:].split(',')[:2]
            cur[int(ln)] = max(cur.get(int(ln), 0), int(cnt))
    anchors = []
    for l in open(os.path.join(VERIF, 'properties.jsonl')):
        d = json.loads(l)
        if d['id'] == prop: anchors = d['anchors']['files']
    files = sorted(set(anchors) | set(f for f, c in cov.items() if any(v > 0 for v in c.values())))
    report = {'property': prop, 'units': notes, 'scale': scale, 'sweep_div': sdiv, 'wall_s': round(time.time() - t0, 1), 'files': {}}
    txt = []
    namere = re.compile(r'(operator\s*[^\s(]+|\w+)\s*\(')
    for f in files:
        path = os.path.join(REPO, f)
        if not os.path.isfile(path): continue
        src = open(path, errors='replace').read().splitlines()
        starts = [i + 1 for i, s in enumerate(src) if 'GLM_FUNC_QUALIFIER' in s and not s.lstrip().startswith('//') and not s.lstrip().startswith('#')]
        c = cov.get(f, {})
        ex, inst0, never = [], [], []
        for k, st in enumerate(starts):
            en = (starts[k + 1] - 1) if k + 1 < len(starts) else len(src)
            tail = src[st - 1].split('GLM_FUNC_QUALIFIER', 1)[1]
            if '(' not in tail and st < len(src): tail += ' ' + src[st]
            m = None
            for m in namere.finditer(tail.split('(')[0] + '('): pass
            name = (m.group(1) if m else '?')
            # the body: lines st..en, trimmed at the next template<> header
            body = [ln for ln in range(st, en + 1)]
            counts = [c[ln] for ln in body if ln in c]
            ent = '%s@%d' % (name, st)
            if any(v > 0 for v in counts): ex.append(ent)
            elif counts: inst0.append(ent)
            else: never.append(ent)
        report['files'][f] = {'anchored': f in anchors, 'definitions': len(starts), 'executed': len(ex), 'instantiated_not_executed': inst0, 'not_instantiated': never,
                              'lines_executed': sum(1 for v in c.values() if v > 0), 'lines_instrumented': len(c)}
        if f in anchors or inst0:
            txt.append('%s%s: %d/%d definitions executed; instantiated but not executed: %s; not instantiated: %s' % (
                '* ' if f in anchors else '  ', f, len(ex), len(starts), ' '.join(inst0) or '-', ' '.join(never) or '-'))
    os.makedirs(os.path.join(VERIF, 'reach'), exist_ok=True)
    json.dump(report, open(os.path.join(VERIF, 'reach', prop + '.json'), 'w'), indent=1)
    open(os.path.join(VERIF, 'reach', prop + '.txt'), 'w').write('\n'.join(txt) + '\n')
    print('\n'.join(txt)); print('units:', notes)
    shutil.rmtree(bdir, ignore_errors=True)
    return 0


if __name__ == '__main__':
    sys.exit(main(sys.argv))
