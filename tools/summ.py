#!/usr/bin/env python3
"""summarise violations in monitor result json files: group by op and class with vecL/qualifier stripped"""
import json,sys,re,collections
g=collections.OrderedDict()
for f in sys.argv[1:]:
    r=json.load(open(f))
    tot=sum(o['evals'] for o in r['ops'])
    print(f,'ops',len(r['ops']),'evals',tot)
    for o in r['ops']:
        for v in o['violations']:
            k=(o['op'],re.sub(r'vec[1-4]:(highp|mediump|lowp|aligned):','',v['class']))
            e=g.setdefault(k,[0,0,None]); e[0]+=1; e[1]+=v['count']; e[2]=e[2] or v['witnesses'][0]
for (op,cl),(n,cnt,w) in g.items():
    print('%-28s %-60s keys=%d count=%d\n      in=(%s)\n      got=%s want=%s'%(op,cl,n,cnt,w['in'][:330],w['got'],w['want']))
