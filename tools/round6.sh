#!/bin/bash
# usage: tools/round6.sh <PROP> <i> <letter>  — confirm /tmp/r6/<PROP>/out<i> as seeded/<PROP><letter>, then run the quick check(s) on it
cd /verif
p=$1; i=$2; l=$3; src=/tmp/r6/$p/out$i
[ -f $src/patch.diff ] && [ -f $src/demo.cpp ] && [ -f $src/meta.json ] || { echo "$p$l: incomplete seed dir $src"; exit 2; }
JOBS=${JOBS:-4} tools/confirm_seed.sh $src $p$l || exit 1
tools/seed_matrix.sh $p$l
