#!/bin/bash
# usage: tools/seed_matrix.sh [seed names...]   — apply each seeded defect to a scratch copy of /repo and run the quick check(s)
# that should catch it (VERIF_REPO points the driver at the copy; /repo itself is not touched). Appends to seeded/RESULTS.txt.
cd /verif
declare -A EXTRA=( [C12f]="C03" [C20f]="C03" [C17e]="C03" [C15o]="C17" [C15n]="C16" [C16n]="C17" [C20o]="C11" [C20n]="C05" [C15k]="C11" [C15j]="C05" [C17k]="C03" [C20j]="C05" [C16l]="C15" [C01k]="C05" [C01l]="C14" [C12j]="C03" [C10k]="C03" [C04l]="C15" [C11l]="C01" [C02h]="C17" [C03h]="C17" [C02i]="C03" [C10i]="C03" [C12g]="C03" [C12i]="C03" [C17h]="C20" [C16g]="C20" [C05i]="C03" [C17f]="C15" [C14f]="C15" [C01f]="C05" [C11f]="C01" [C04f]="C03" [C10d]="C03" [C11e]="C03" [C05f]="C03" [C01c]="C03" [C02c]="C03" [C10a]="C03" [C12c]="C03" [C11c]="C03" [C20c]="C17" [C05c]="C03" )
seeds="$@"; [ -z "$seeds" ] && seeds=$(ls seeded | grep -E '^C[0-9]{2}[abc]$')
for sd in $seeds; do
  prop=${sd:0:3}
  scratch=$(mktemp -d /tmp/seedrepo.XXXXXX); cp -r /repo/glm $scratch/glm
  if ! (cd $scratch && patch -p1 -s --no-backup-if-mismatch < /verif/seeded/$sd/patch.diff >/dev/null 2>&1); then echo "$sd: PATCH-DOES-NOT-APPLY to current tree" | tee -a seeded/RESULTS.txt; rm -rf $scratch; continue; fi
  for chk in $prop ${EXTRA[$sd]}; do
    [ -f fw/props/$chk.py ] || { echo "$sd: check $chk not built"; continue; }
    VERIF_TAG=seed_$sd VERIF_REPO=$scratch ./check $chk --tier quick > /tmp/seedrun_$sd.$chk.log 2>&1; rc=$?
    rm -rf build/$chk.seed_$sd
    first=$(grep -m1 "^   op=" /tmp/seedrun_$sd.$chk.log | sed -E 's/count=.*//' | cut -c1-170)
    n=$(grep -c "^VIOLATION" /tmp/seedrun_$sd.$chk.log)
    if [ $rc = 1 ]; then echo "$sd: CAUGHT by $chk ($n violation keys) e.g.$first" | tee -a seeded/RESULTS.txt; else echo "$sd: rc=$rc from $chk (not caught) $(grep -m1 -E 'HARNESS|COMPILE' /tmp/seedrun_$sd.$chk.log | cut -c1-120)" | tee -a seeded/RESULTS.txt; fi
  done
  rm -rf $scratch
done
