#!/bin/bash
# build and run the repository's own test suite on /repo's working tree (guard off: no hooks exist)
cmake -G Ninja -S /repo -B /repo/_build -DGLM_BUILD_TESTS=ON -DCMAKE_BUILD_TYPE=RelWithDebInfo -DCMAKE_CXX_FLAGS=-Wno-error >/dev/null 2>&1 && cmake --build /repo/_build -j16 2>&1 | grep -E "error|FAILED" | head -5; test ${PIPESTATUS[0]} = 0 || { echo BUILD-FAILED; exit 1; }; ctest --test-dir /repo/_build -j8 --timeout 900 2>&1 | grep -E "tests passed|Failed|\*\*\*" | head
