#!/bin/bash
# usage: tools/try_seed.sh <patch> <prop> [tier]  — apply a seeded defect to /repo, run the check, always revert
patch=$(realpath $1); prop=$2; tier=${3:-quick}
cd /verif
git -C /repo diff --quiet || { echo "repo dirty"; exit 9; }
git -C /repo apply "$patch" || { echo "patch failed"; exit 9; }
cp evidence/$prop.json /tmp/ev_backup_$prop.json 2>/dev/null
./check $prop --tier $tier > /tmp/try_seed_$prop.log 2>&1; rc=$?
git -C /repo checkout -- .
cp /tmp/ev_backup_$prop.json evidence/$prop.json 2>/dev/null
rm -rf replay/$prop
grep -E "^VIOLATION|^   op=|^   witness|HARNESS|COMPILE" /tmp/try_seed_$prop.log | head -${LINES_MAX:-12}
echo "rc=$rc"
