#!/bin/bash
# usage: tools/confirm_seed.sh <dir with patch.diff demo.cpp meta.json> <seed-name e.g. C07a>
# Confirms in a scratch worktree: patch applies, library+tests build, 185 tests pass, demo passes pristine / fails patched.
# On success copies the seed to /verif/seeded/<name>/ with the confirmation recorded in meta.json.
src=$1; name=$2
wt=/tmp/confirm/$name
mkdir -p /tmp/confirm; rm -rf $wt; git -C /repo worktree prune
git -C /repo worktree add --detach $wt HEAD >/dev/null 2>&1 || { echo "$name: worktree failed"; exit 2; }
trap "git -C /repo worktree remove --force $wt >/dev/null 2>&1; rm -rf $wt" EXIT
build=$(python3 -c "import json,re;print(re.sub(r'\s{2,}\(.*$','',json.load(open('$src/meta.json'))['demo_build']).strip())")
# demo on pristine
cmd=$(echo "$build" | sed "s#\$GLM#$wt#g; s#demo\.cpp#$src/demo.cpp#; s#-o [^ ]*#-o $wt/demo_bin#")
( cd $wt && eval "$cmd" ) >/tmp/confirm/$name.log 2>&1 || { echo "$name: demo does not compile on pristine"; exit 1; }
$wt/demo_bin >>/tmp/confirm/$name.log 2>&1; p=$?
git -C $wt apply $src/patch.diff || { echo "$name: patch does not apply"; exit 1; }
( cd $wt && eval "$cmd" ) >>/tmp/confirm/$name.log 2>&1 || { echo "$name: demo does not compile with patch"; exit 1; }
$wt/demo_bin >>/tmp/confirm/$name.log 2>&1; q=$?
( cd $wt && cmake -G Ninja -B _build -DGLM_BUILD_TESTS=ON -DCMAKE_BUILD_TYPE=RelWithDebInfo -DCMAKE_CXX_FLAGS=-Wno-error >/dev/null && cmake --build _build -j${JOBS:-8} >/dev/null 2>>/tmp/confirm/$name.log ) || { echo "$name: build with patch failed"; exit 1; }
t=$(ctest --test-dir $wt/_build -j8 --timeout 900 2>&1 | grep "tests passed")
echo "$name: demo pristine rc=$p, patched rc=$q, tests: $t"
if [ "$p" = 0 ] && [ "$q" != 0 ] && echo "$t" | grep -q "100% tests passed, 0 tests failed out of 185"; then
  mkdir -p /verif/seeded/$name; cp $src/patch.diff $src/demo.cpp /verif/seeded/$name/
  python3 - <<PY
import json
m=json.load(open('$src/meta.json'))
m['confirmed']={'demo_rc_pristine':$p,'demo_rc_patched':$q,'tests':'$t'.strip(),'how':'tools/confirm_seed.sh in a scratch worktree of /repo HEAD: demo built and run on the pristine tree, patch applied with git apply, demo rebuilt and run, full test suite rebuilt with cmake/ninja and run with ctest'}
json.dump(m,open('/verif/seeded/$name/meta.json','w'),indent=1)
PY
  echo "$name: CONFIRMED"
else echo "$name: NOT confirmed"; exit 1; fi
