#!/bin/bash
# run every registered quick check for the given seeds; print one line per run
cd /verif
for s in ${SEEDS:-1 2 3}; do
 for p in $(python3 -c "import json;print(' '.join(c['property_id'] for c in json.load(open('MANIFEST.json'))['checks']))"); do
  [ -n "$ONLY" ] && [[ " $ONLY " != *" $p "* ]] && continue
  t0=$(date +%s); VERIF_SEED=$s ./check $p --tier ${TIER:-quick} > /tmp/soak_$p.$s.log 2>&1; rc=$?
  echo "$p seed=$s rc=$rc $(( $(date +%s)-t0 ))s $(tail -1 /tmp/soak_$p.$s.log | cut -c1-160)"
 done
done
