#!/usr/bin/env python3
"""Regenerate MANIFEST.json from the table below (run from /verif)."""
import json, os, sys
V = os.path.dirname(os.path.dirname(os.path.abspath(__file__)))
props = [json.loads(l) for l in open(os.path.join(V, 'properties.jsonl'))]

TRUST = ('Trusted base: g++ 12.2 / clang++ 14 code generation, glibc libm, the reference models in fw/ref.hpp and in the monitor source '
         '(each reference is independent of glm code), x86-64 SSE2 arithmetic with -ffp-contract=off. Exploration only: the claim is '
         '"held on the evaluations counted in the evidence file", nothing about inputs that were not generated; NEON/MSVC/CUDA paths are never executed.')

# id -> (technique, level text, level note, design ref)
CHECKS = {
 'C07': ('runtime oracle over complete enumeration (2^16 halfs, 2^32 floats): bit-level IEEE binary16 model cross-checked against F16C hardware',
         'Every half pattern and every float pattern is pushed through the real packHalf1x16/unpackHalf1x16 and judged by an independent bit-level model (nearest / tie / overflow / underflow / NaN / sign symmetry / monotonicity / round trip); vector overloads on lattice and random tuples. Complete enumeration of the scalar domain makes this as strong as execution-based monitoring gets for this property.',
         TRUST + ' The software model and the F16C instructions are compared on every input; a disagreement aborts the run as a harness failure.', 'DESIGN.md 7/C07'),
}
CHECKS['C05'] = ('runtime oracle: bit-by-bit GLSL reference models; complete enumeration of 8/16-bit domains, structured + random 32/64-bit inputs; pure and SIMD builds',
         'All ten GLSL integer/bitfield functions, scalar and vec1..4, i8..u64, are evaluated on every 8/16-bit value crossed with every (offset,bits) pair and on single-bit / run-of-ones / boundary / random 32- and 64-bit values, each result compared with a loop-based model written from the GLSL text. The SMT equivalence mentioned in the quantifier is outside this technique family: for 32/64-bit widths the claim is held-on-N-inputs only.',
         TRUST, 'DESIGN.md 7/C05')
CHECKS['C01'] = ('runtime differential oracle: vector overload vs scalar overload of the same glm function per component, over lattice^n and random inputs, all lengths/qualifiers',
         'About 740 (function or operator, overload shape, element type) operations, each instantiated for vector lengths 1-4 and the qualifiers, are evaluated on special-value lattice tuples and random tuples; every component is compared with what the scalar overload returns (bitwise, or within the derived rounding bound for mix/smoothstep/mod/fma, or 2^-8 for lowp inversesqrt), and scalar/vec1 arguments are compared with the broadcast vector.',
         TRUST + ' The scalar overload is the reference, as the statement says; its own correctness is C11/C05/C18 territory.', 'DESIGN.md 7/C01')
CHECKS['C12'] = ('runtime oracle: long double / __float128 evaluation of the defining formulas with derived k*u*S bounds, exact branch decisions outside the rounding band; pure, clang, -O0 and SIMD (aligned) builds',
         'dot/length/distance/cross/normalize/reflect/refract/faceforward (vec1-4 and scalar overloads, float and double) and the gtx norm/projection/perpendicular/orthonormalize/angle/closest-point helpers are evaluated on random finite vectors plus orthogonal/parallel/antiparallel/near-degenerate configurations and straddlers of refract k=0 and faceforward dot=0; each result is compared with a higher-precision evaluation of the stated identity. The evidence records max error/bound per operation.',
         TRUST, 'DESIGN.md 7/C12')
CHECKS['C03'] = ('runtime differential monitor: the same operation table evaluated on aligned (SIMD) and packed (generic C++) operands built from identical bits inside GLM_FORCE_INTRINSICS builds at each x86 ISA level, compared under the class the statement gives (identical value / k*u*S / 2^-11 for lowp); hidden-lane poisoning',
         'About 145 operations (vec1-4 operators and functions for float/double/int/uint, matrices, quaternions, conversions) are executed in 8 (quick) to 35 (thorough) builds covering SSE2..AVX2(+FMA), aligned highp/mediump/lowp, default-aligned and WXYZ configurations; every aligned result is compared with the packed (pure-code) result on the same inputs, including adversarial hidden lanes of aligned vec3, ties, |x|>=2^23, refract/faceforward branch straddlers.',
         TRUST + ' Reference = packed_highp code path in the same build (the code GLM_FORCE_PURE compiles); NEON not executable here.', 'DESIGN.md 7/C03')
CHECKS['C11'] = ('runtime oracle over complete enumeration (2^32 floats for unary functions) plus lattice^n and random n-ary inputs: bit-level references for the rounding family, case analyses for selection functions, MPFR for constants; pure, clang, -O0 and SIMD builds',
         'Every float pattern goes through the hand-rolled unary functions (roundEven, fract, sign, iround, uround, mirrorRepeat) in the quick tier and through all unary functions in the thorough tier; doubles and n-ary functions are driven by the special-value lattice (all pairs/triples) and random tuples; every constant of ext/scalar_constants and gtc/constants is compared with its MPFR value rounded to float and double.',
         TRUST + ' Signalling NaNs are outside the domain (GLSL has none; libm fmin/fmax treat them specially).', 'DESIGN.md 7/C11')
CHECKS['C19'] = ('runtime oracle: monotonicity along increasing sweeps, fixed points, range, alpha, round trips against derived bounds; complete enumeration of all 2^24 8-bit RGB triples for the integer YCoCg-R pair',
         'sRGB<->linear (default, explicit gamma, lowp approximation; vec3/vec4; float/double) on dense grids, threshold straddlers and (thorough) every float in [0,1]; HSV and YCoCg round trips on the RGB cube with sector-boundary hues; the integer YCoCg-R pair exhaustively for 8 element types; saturation/luminosity against the documented weights.',
         TRUST, 'DESIGN.md 7/C19')
CHECKS['C04'] = ('runtime oracle: long double / __float128 Rodrigues-Hamilton reference and the mutual identities of the statement with derived bounds; built for XYZW and WXYZ quaternion storage, gcc/clang, O0/O3',
         'q*v vs mat3_cast/mat4_cast, quat_cast round trips (all four branches counted), product-of-matrices, angle/axis/angleAxis, eulerAngles round trip with 1/cos(yaw) conditioning, quaternion from two vectors, inverse/conjugate, all 21 eulerAngle builders and 12 extractors, rotate_vector helpers and dual-quaternion transforms, on random unit quaternions, axis-aligned and w~0/w~1 perturbations and gimbal-lock neighbourhoods; a layout op checks member/memory order under both macros.',
         TRUST, 'DESIGN.md 7/C04')
CHECKS['C13'] = ('runtime oracle: great-arc reference in long double / __float128 (cross-checked against 256-bit MPFR at start-up), per-evaluation derived tolerance, either branch accepted within rounding of the fallback/flip thresholds; XYZW/WXYZ, SIMD aligned, gcc/clang builds',
         'slerp (with and without spins), mix, lerp, shortMix, fastMix, squad end points, intermediate, dual-quaternion lerp on unit pairs at separations 1e-9 .. pi-1e-9 on both sides of the linear-fallback threshold, t in [-2,3], k in -3..3: end points, unit norm, arc position, never NaN, symmetry.',
         TRUST, 'DESIGN.md 7/C13')
CHECKS['C18'] = ('runtime oracle: loop-based reference implementations; complete enumeration of 8/16-bit domains (values x multiples/shift counts/ranges), all 2^24..2^32 interleave inputs, lattice + random for 32/64-bit',
         'Power-of-two family, multiples (integer and floating), findNSB, integer log2/sqrt/pow/factorial/mod, mask, fill, rotate, interleave/deinterleave in scalar, vector and vector-scalar forms for i8..u64: every result compared with a loop written from the documentation.',
         TRUST, 'DESIGN.md 7/C18')
CHECKS['C02'] = ('runtime oracle: triple-loop column-major references in exact integer arithmetic (tag matrices of distinct primes, transposition probes, small integers) and 2K*u*sum|a||b| bounds for general floats; pure and SIMD-aligned builds',
         'All 27 matrix products, 9+9 matrix-vector products, 81 shape conversions, element/column/scalar constructors, element-wise and compound operators with matrices and scalars, ++/--, ==/!=, transpose, outerProduct, matrixCompMult, gtc row/column access, gtx diagonal/rowMajor/colMajor/matrixCross for 9 shapes x 3 qualifiers x float/double/int/uint (sized ints in the thorough tier).',
         TRUST, 'DESIGN.md 7/C02')
CHECKS['C06'] = ('runtime oracle: exact evaluation of the documented pack/unpack formulas (double / __float128), complete enumeration of every word of every format up to 20 bits (2^32 words and 2^32 floats in the thorough tier), own layout table',
         'Every pack/unpack pair of glm/packing.hpp and glm/gtc/packing.hpp: canonical-code round trip, unpack-pack-unpack stability, nearest-code quantisation within half a step plus the derived float slack, clamping, monotonicity along increasing sweeps and bit layout (component 0 in the least significant bits).',
         TRUST + ' Half conversion accuracy itself is C07.', 'DESIGN.md 7/C06')
CHECKS['C10'] = ('runtime oracle: MPFR 512-bit Leibniz determinant / cofactor inverse from the exact inputs, per-entry formula bounds, exact comparison on small-integer unimodular matrices; pure and SIMD-aligned builds',
         'determinant (multiplicative, transpose-invariant), inverse entries and both residual products, inverseTranspose, affineInverse, operator/ forms, adjugate, diagonal builders, QR/RQ, matrix_query on matrices conditioned by construction up to the stated kappa limits; residual/(u*kappa) is measured and reported.',
         TRUST + ' The verdict threshold is the rounding bound of the cofactor scheme; the growth of the residual with kappa^(n-1) for spectra with several small singular values is reported as a measurement (DESIGN 7/C10), not judged.', 'DESIGN.md 7/C10')
CHECKS['C14'] = ('runtime oracle: integer arithmetic on the IEEE total order; complete enumeration of all finite floats for the one-argument functions, binade-boundary/zero-straddling/random pairs at ULP distances 0..64 for doubles and comparisons; std, CXX98-fallback and SIMD builds',
         'nextFloat/prevFloat (1-step, n-step, vector forms; ext and gtc spellings), floatDistance(x, nextFloat(x,n)) = n, ULP equal/notEqual for scalar, vec1-4 and all nine matrix shapes, epsilon equal/notEqual/epsilonEqual/epsilonNotEqual for scalar, vector, matrix, quaternion: every answer compared with successor/predecessor/distance computed on the monotone integer index of the IEEE order and with both the exact and the correctly rounded |x-y|.',
         TRUST, 'DESIGN.md 7/C14')
CHECKS['C08'] = ('runtime oracle: view-volume corners pushed through the returned matrix in long double / __float128 against the clip-cube corners with derived bounds; bitwise comparison of unsuffixed/half-suffixed builders with the variant selected by the macros; four clip-control builds',
         'All suffixed ortho/frustum/perspective/perspectiveFov/infinitePerspective builders (RH/LH x NO/ZO), their unsuffixed and half-suffixed dispatchers in the four configurations {RH,LH}x{NO,ZO}, perspective==symmetric frustum, perspectiveFov==perspective(aspect), tweakedInfinitePerspective, project/unProject (NO/ZO/unsuffixed, float and integer viewports), pickMatrix; a link probe checks that every declared builder is defined.',
         TRUST, 'DESIGN.md 7/C08')
CHECKS['C09'] = ('runtime oracle: M*E with E built element-wise in long double / __float128, rigid-transform clauses for lookAt, recompose(decompose(M)) and reference recomposition with conditioned bounds; RH/LH x NO/ZO builds for lookAt',
         'translate/rotate/scale/shear and their _slow twins, gtx transform/transform2/matrix_transform_2d/rotate_vector/rotate_normalized_axis/matrix_interpolation helpers, lookAt/RH/LH under all four clip-control configurations, decompose/recompose with every quaternion-extraction and flip branch counted.',
         TRUST, 'DESIGN.md 7/C09')
CHECKS['C20'] = ('compiler sanitizers as oracle: every other monitor and a dedicated domain-edge monitor rebuilt with ASan+UBSan (+float-cast-overflow) of g++ 12 (clang 14 in the thorough tier) and re-run single-threaded on in-domain workloads; reports located under glm/ are attributed to (operation, input) through the monitor breadcrumb',
         'Any UBSan/ASan report inside glm/ raised while the in-domain workloads of the other properties run is a violation keyed by (operation, UB kind, file). Quick: the integer/bitfield/packing/ULP/common monitors and the edge monitor (about 10 sanitizer builds); thorough: all monitors including SIMD builds, both compilers.',
         TRUST + ' Only UB the installed sanitizers can observe; strict aliasing and inactive-union reads are out of reach; left shift of negative values is deliberately not flagged.', 'DESIGN.md 7/C20')
CHECKS['C15'] = ('offline differential checker over recorded result digests: one operation table built once per configuration (21 single macros, -O0/-O2/-O3; thorough adds macro pairs, clang, more -O levels), identical deterministic input stream, 64-bit digest per (operation, 256-record chunk), first differing record decoded by re-running both builds in dump mode',
         'Every configuration build evaluates 38 operation groups (every function with a pre-C++11 fallback body individually, integer/bitfield functions, vector/matrix/quaternion algebra, transforms, packing, constructors, decompose, gtx quaternion/dual quaternion, the length_t-templated vector overloads of gtc/round, gtc/ulp, ext/vector_integer) on the same inputs; results must be bit-identical to the default -O2 build (NaN==NaN). A translation unit that compiles in the default configuration but not under a macro is reported as well.',
         TRUST + ' Inputs that reach libm are never compile-time constants (volatile-sourced literals), so compile-time folding cannot masquerade as a configuration difference.', 'DESIGN.md 7/C15')
CHECKS['C16'] = ('runtime layout monitor: executed sizeof/alignof/address/offset/byte-image facts for every vec/mat/qua instantiation, one build per configuration (17 quick, 48 thorough: default, SWIZZLE, XYZW_ONLY, ALIGNED/DEFAULT_ALIGNED_GENTYPES, INTRINSICS at each ISA level, SIZE_T_LENGTH, QUAT_DATA_WXYZ, CTOR_INIT, CXX98, combinations, clang)',
         'For L in 1..4, CxR in 2..4 x 2..4, T in bool,i8..u64,float,double and packed/aligned highp/mediump/lowp qualifiers the monitor executes: sizeof, alignof, &v[i]-&v[0], offsets of named members and aliases, column/element/value_ptr addresses, tag write/read across operator[], members, value_ptr and raw bytes in a guarded buffer, make_vec/make_mat/make_quat round trips, length() value and type, the documented typedef sizes and the manual 2.10 struct example.',
         TRUST + ' Concrete alignments of aligned types other than those the statement names are recorded, not judged.', 'DESIGN.md 7/C16')
CHECKS['C17'] = ('generated complete enumeration: every 2/3/4-letter swizzle over xyzw/rgba/stpq for source lengths 2-4 in member-function, operator (packed and aligned, reads, writes, compound and self-aliasing assignments) and gtx free-function form; every constructor argument-shape composition x cross-type x cross-qualifier; tags compared through memcpy; compile probes for accessors that must exist',
         'mon/gen_C17.py emits the swizzle word lists and constructor cases at check time; every source component holds a distinct tag and the expected result is computed from the accessor NAME or the argument list (left-to-right fill, static_cast per component). Builds: function/operator/free forms, CXX98 constructor bodies, SIMD aligned<->packed conversions; thorough adds i8/bool, AVX, clang, -O0 and ASan+UBSan units reading exactly-sized heap objects.',
         TRUST + ' The enumeration is complete for the accessor and constructor sets the generator lists (exhaustive over names, not over tag values).', 'DESIGN.md 7/C17')

# supplements added after the seeded-defect rounds (kept short: the technique field names the deciding method)
for _i in ('C01', 'C02', 'C04', 'C05', 'C10'):
    t = CHECKS[_i]; CHECKS[_i] = (t[0] + '; aliasing supplement: every in-place / compound / out-parameter form run with the destination as operand and compared bitwise with the same call on a copy', ) + t[1:]
for _i in ('C01', 'C03', 'C05', 'C11', 'C15', 'C18'):
    t = CHECKS[_i]; CHECKS[_i] = (t[0] + '; constant-argument supplement: scalar arguments as compile-time constants vs the same values read from volatiles inside one optimised build, bitwise comparison', ) + t[1:]
t = CHECKS['C01']; CHECKS['C01'] = (t[0] + '; gtx/component_wise conversions per component against the vec1 call, reductions against the fold of the scalar operation', ) + t[1:]
REASONS = {}

checks = []
na = []
for p in props:
    i = p['id']
    if i in CHECKS:
        tech, text, note, ref = CHECKS[i]
        checks.append({
            'property_id': i,
            'quick_cmd': './check %s --tier quick' % i,
            'thorough_cmd': './check %s --tier thorough' % i,
            'evidence_file': 'evidence/%s.json' % i,
            'replay_cmd_template': './check %s --replay {path}' % i,
            'engine': 'vf-monitor',
            'level_claimed': {'category': 'exploration', 'text': text, 'design_ref': ref},
            'level_note': note,
            'technique': tech,
        })
    else:
        na.append({'property_id': i, 'reason': REASONS.get(i, 'check not built yet (work in progress, see DESIGN.md section 7)')})

m = {
 'version': 1,
 'setup_cmd': 'true',
 'hooks': {
  'guard': 'GLM_VERIF',
  'enable': 'no source hooks are used: monitors observe the public API of the unmodified headers (-isystem /repo); the guard name is reserved',
  'baseline_off_cmd': 'cmake -G Ninja -S /repo -B /repo/_build -DGLM_BUILD_TESTS=ON -DCMAKE_BUILD_TYPE=RelWithDebInfo -DCMAKE_CXX_FLAGS=-Wno-error && cmake --build /repo/_build && ctest --test-dir /repo/_build -j8 --timeout 900',
  'source_commits': [],
  'add_only': True,
 },
 'engines': [{'name': 'vf-monitor', 'path': 'check', 'serves_properties': [c['property_id'] for c in checks],
              'kind_free_text': 'runtime monitoring: monitors (mon/*.cpp on fw/vf.hpp) compiled against /repo at check time evaluate the public glm API on enumerated/lattice/random inputs and judge every evaluation with an independent reference model; sanitizer builds for C20; driver fw/driver.py'}],
 'checks': checks,
 'notes': 'Each check rebuilds its monitors from /repo\'s working tree on every run (no caching). Env: VERIF_SEED, VERIF_TIER, VERIF_JOBS. Known findings: KNOWN_FINDINGS.txt. Seeded defects used to validate the monitors: seeded/.',
 'not_applicable': na,
}
json.dump(m, open(os.path.join(V, 'MANIFEST.json'), 'w'), indent=1)
print('checks:', [c['property_id'] for c in checks])
